import sys
f='/tmp/wt-c06/internal/backend/connector_updates.go'
uf='/tmp/wt-c06/internal/backend/user.go'
s=open(f).read()
u=open(uf).read()
m=sys.argv[1]
def rep(src,old,new,cnt=1):
    assert src.count(old)>=1,(m,old)
    return src.replace(old,new,cnt)
if m=='M1':   # never acked on one error path
    s=rep(s,"	update.Done(err)\n\n	return err\n}","	if _, isFlags := update.(*imap.MessageFlagsUpdated); isFlags && err != nil {\n		return err\n	}\n\n	update.Done(err)\n\n	return err\n}")
elif m=='M2': # Done twice on one path
    s=rep(s,"	update.Done(err)\n\n	return err\n}","	update.Done(err)\n\n	if _, isDel := update.(*imap.MailboxDeleted); isDel && err == nil {\n		update.Done(err)\n	}\n\n	return err\n}")
elif m=='M3': # drop MailboxFilterContains pre-check
    s=rep(s,"""			toAdd := xslices.Filter(msgList, func(id db.MessageIDPair) bool {
				return !slices.Contains(inMailbox, id.InternalID)
			})""","""			inMailbox = nil
			toAdd := xslices.Filter(msgList, func(id db.MessageIDPair) bool {
				return !slices.Contains(inMailbox, id.InternalID)
			})""")
elif m=='M4': # setMessageFlags always emits add-updates
    s=rep(s,"""	for _, v := range flags.ToSliceUnsorted() {
		if !flagSet.Contains(v) {""","""	for _, v := range flags.ToSliceUnsorted() {
		if true {""")
elif m=='M5': # MailboxDeleted keeps the subscription
    s=rep(s,"""		if _, err := tx.RemoveDeletedSubscriptionWithName(ctx, mailbox.Name); err != nil {
			return nil, err
		}
""","")
elif m=='M6': # MessageDeleted removes from the first mailbox only
    s=rep(s,"""		messageIDs := []imap.InternalMessageID{internalMessageID}

		var stateUpdates []state.Update

		for _, mailbox := range mailboxes {""","""		messageIDs := []imap.InternalMessageID{internalMessageID}

		var stateUpdates []state.Update

		if len(mailboxes) > 1 {
			mailboxes = mailboxes[:1]
		}

		for _, mailbox := range mailboxes {""")
elif m=='M7': # MailboxUpdated renames inferiors too
    s=rep(s,"""		return tx.RenameMailboxWithRemoteID(ctx, update.MailboxID, strings.Join(update.MailboxName, user.delimiter))""","""		all, err := tx.GetAllMailboxesWithAttr(ctx)
		if err != nil {
			return err
		}

		for _, mb := range all {
			if strings.HasPrefix(mb.Name, currentName+user.delimiter) {
				if err := tx.RenameMailboxWithRemoteID(ctx, mb.RemoteID, remoteName+mb.Name[len(currentName):]); err != nil {
					return err
				}
			}
		}

		return tx.RenameMailboxWithRemoteID(ctx, update.MailboxID, strings.Join(update.MailboxName, user.delimiter))""")
elif m=='M8': # new literal keeps the old bytes
    s=rep(s,"""				literalReader, literalSize, err := rfc822.SetHeaderValueNoMemCopy(update.Literal, ids.InternalIDKey, newInternalID.String())
				if err != nil {
					return nil, fmt.Errorf("failed to set internal ID: %w", err)
				}

				request := &db.CreateMessageReq{
					Message:     update.Message,""","""				oldBytes := update.Literal
				if len(onDiskLiteral) > 0 {
					if i := bytes.Index(onDiskLiteral, []byte("\\r\\n")); i >= 0 {
						oldBytes = onDiskLiteral[i+2:]
					}
				}

				literalReader, literalSize, err := rfc822.SetHeaderValueNoMemCopy(oldBytes, ids.InternalIDKey, newInternalID.String())
				if err != nil {
					return nil, fmt.Errorf("failed to set internal ID: %w", err)
				}

				request := &db.CreateMessageReq{
					Message:     update.Message,""")
elif m=='M9': # an error stops the update goroutine
    u=rep(u,"""					log.WithError(err).Errorf("Failed to apply update: %v", err)
""","""					log.WithError(err).Errorf("Failed to apply update: %v", err)

					return
""")
elif m=='M4b': # M4 + the fetch responder no longer suppresses an unchanged flag set
    s=rep(s,"""	for _, v := range flags.ToSliceUnsorted() {
		if !flagSet.Contains(v) {""","""	for _, v := range flags.ToSliceUnsorted() {
		if true {""")
    rf='/tmp/wt-c06/internal/state/responders.go'
    r=open(rf).read()
    r=rep(r,"""	if curFlags.Equals(newFlags) {
		return nil, nil, nil
	}

	// When handling a SILENT STORE""","""	if curFlags.Equals(newFlags) && u.fetchFlagOp != FetchFlagOpAdd {
		return nil, nil, nil
	}

	// When handling a SILENT STORE""")
    open(rf,'w').write(r)
else:
    raise SystemExit('unknown '+m)
open(f,'w').write(s)
open(uf,'w').write(u)
