package c06

import (
	"strings"
	"sync"
	"testing"

	"pgregory.net/rapid"

	"verif/internal/ev"
)

var (
	kindMu    sync.Mutex
	kindTotal = map[string]int{}
	casesRun  int
)

var stepKinds = func() []string {
	w := map[string]int{
		kMailboxCreated: 3, kMailboxDeleted: 2, kMailboxUpdated: 3, kMailboxIDChanged: 2, kMessagesCreated: 6,
		kMessageMailboxes: 5, kMessageFlags: 4, kMessageIDChanged: 2, kMessageDeleted: 3, kMessageUpdated: 5,
		kUIDValidityBump: 1, kNoop: 1, "dup": 7, "cmd": 18, "progress": 2,
	}

	var r []string

	for _, k := range append(append([]string(nil), allKinds...), "dup", "cmd", "progress") {
		for i := 0; i < w[k]; i++ {
			r = append(r, k)
		}
	}

	return r
}()

func run(t *rapid.T) {
	cfg := caseCfg{
		twoSessions: uni(t, "twoSessions", 4) > 0,
		noParallel:  rapid.Bool().Draw(t, "noParallel"),
	}

	e := newEnv(t, cfg, false)
	defer e.close()

	g := &gen{}
	e.note("cfg twoSessions=%v noParallel=%v", cfg.twoSessions, cfg.noParallel)
	e.compare("start", false, nil)

	// a small remote state to start from (regular valid updates, judged like all others)
	for i, n := 0, rapid.IntRange(0, 2).Draw(t, "prefillBoxes"); i < n; i++ {
		d := e.newDesc(kMailboxCreated)
		d.boxRID, d.name = g.boxRID(), []string{"A", "B"}[i]
		e.exec(step{op: "upd", d: d, times: 1})
	}

	if rapid.Bool().Draw(t, "prefillMessages") {
		d := e.newDesc(kMessagesCreated)

		for i, n := 0, rapid.IntRange(1, 3).Draw(t, "prefillN"); i < n; i++ {
			mk := g.marker()
			d.items = append(d.items, item{rid: g.msgRID(), marker: mk, literal: msgLiteral(mk), flags: drawFlags(t), boxes: drawBoxes(t, e.m, 2)})
		}

		e.exec(step{op: "upd", d: d, times: 1})
	}

	nUpd, nCmd := 0, 0

	for i, n := 0, 1+uni(t, "steps", 30); i < n; i++ {
		k := stepKinds[uni(t, "step", len(stepKinds))]

		switch {
		case k == "cmd":
			if !cfg.twoSessions || nCmd >= 15 {
				continue
			}

			c := g.command(t, e)
			if c == nil {
				continue
			}

			nCmd++

			e.exec(step{op: "cmd", c: c, echoTimes: 1+uni(t, "echoTimes", 2)})

		case nUpd >= 25:
			continue

		case k == "dup":
			var cand []*desc

			for _, d := range e.delivered {
				if d.kind != kUIDValidityBump {
					cand = append(cand, d)
				}
			}

			if len(cand) == 0 {
				continue
			}

			// mostly a recent one, sometimes any earlier one
			lo := 0
			if len(cand) > 4 && rapid.Bool().Draw(t, "recentDup") {
				lo = len(cand) - 4
			}

			nUpd++

			e.exec(step{op: "dup", d: cand[lo+uni(t, "dupOf", len(cand)-lo)], times: 1, focus: rapid.Bool().Draw(t, "focus")})

		case k == "progress":
			nUpd++

			g.nName++

			e.exec(step{op: "progress", rid: g.boxRID(), name: "p" + itoa(g.nName), drop: len(e.m.boxes) >= 4 || rapid.Bool().Draw(t, "drop")})

		default:
			nUpd++

			d := g.update(t, e, k)
			times := 1

			if k != kUIDValidityBump {
				times = []int{1, 1, 1, 1, 2, 2, 3}[uni(t, "times", 7)]
			}

			e.exec(step{op: "upd", d: d, times: times, focus: uni(t, "focus", 3) == 0})
		}
	}

	// (2) progress after the whole sequence
	g.nName++
	e.exec(step{op: "progress", rid: g.boxRID(), name: "p" + itoa(g.nName), drop: true})

	labels := make([]string, 0, len(e.labels))
	for l := range e.labels {
		labels = append(labels, l)
	}

	ev.Case(e.failThenValid || e.redelivered, ev.Hash(strings.Join(e.ops, ";")), labels...)

	for k, n := range e.kinds {
		ev.Class("kind:"+k, n)
	}

	ev.Class("restating-deliveries-checked-quiet", e.restatingChecks)

	kindMu.Lock()
	casesRun++

	for k, n := range e.kinds {
		kindTotal[k] += n
	}
	kindMu.Unlock()

	if ev.WantSample() {
		ev.Sample(e.ops)
	}
}

func msgLiteral(marker string) []byte { return machMsg(marker, "remote") }

func TestC06Sequences(t *testing.T) {
	ev.Checks(150, 1000)
	rapid.Check(t, run)
}

// All 12 kinds must have been delivered during the run (evidence requirement of DESIGN.md C06).
func TestC06AllKindsDelivered(t *testing.T) {
	kindMu.Lock()
	defer kindMu.Unlock()

	if casesRun < 20 {
		t.Skipf("only %d generated cases in this process", casesRun)
	}

	for _, k := range allKinds {
		if kindTotal[k] == 0 {
			t.Errorf("update kind %s was never delivered in %d cases: %v", k, casesRun, kindTotal)
		}
	}
}
