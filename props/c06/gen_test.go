package c06

import (
	"fmt"
	"strings"

	"github.com/ProtonMail/gluon/imap"
	"pgregory.net/rapid"

	"verif/internal/ev"
	"verif/internal/kf"
	"verif/internal/mach"
)

// Generators: every argument is constructed from the current model (existing / deleted / never existing ids), so that
// no case is rejected. The connector never states \Deleted or \Recent (the remote side does not know them): their
// meaning inside a connector update is not described anywhere.
var connFlags = []string{`\Seen`, `\Flagged`, `\Answered`, `\Draft`, `kw1`, `$kw2`}

// uni draws uniformly from [0, n): rapid's integer generators strongly favour small values (geometric bit length), which
// would starve the later alternatives of every choice; single bits are uniform (and shrink towards 0).
func uni(t *rapid.T, label string, n int) int {
	bits := 2
	for 1<<(bits-2) < n {
		bits++
	}

	v := 0

	for i := 0; i < bits; i++ {
		if rapid.Bool().Draw(t, label) {
			v |= 1 << i
		}
	}

	return v % n
}

type gen struct {
	nBox, nMsg, nName, nMark, nBogus int
}

func (g *gen) boxRID() imap.MailboxID { g.nBox++; return imap.MailboxID(fmt.Sprintf("rb-%d", g.nBox)) }
func (g *gen) msgRID() imap.MessageID { g.nMsg++; return imap.MessageID(fmt.Sprintf("rm-%d", g.nMsg)) }
func (g *gen) marker() string         { g.nMark++; return fmt.Sprintf("c%d", g.nMark) }
func (g *gen) bogusBox() imap.MailboxID {
	g.nBogus++
	return imap.MailboxID(fmt.Sprintf("no-such-mailbox-%d", g.nBogus))
}

func (g *gen) bogusMsg() imap.MessageID {
	g.nBogus++
	return imap.MessageID(fmt.Sprintf("no-such-message-%d", g.nBogus))
}

func (g *gen) name(t *rapid.T, m *model) string {
	g.nName++

	switch v := uni(t, "nameShape", 10); {
	case v <= 6:
		return fmt.Sprintf("b%d", g.nName)
	case v <= 8:
		return pickBox(t, m.boxes).name + fmt.Sprintf("/k%d", g.nName)
	default:
		return fmt.Sprintf("nowhere%d/k", g.nName)
	}
}

func pickBox(t *rapid.T, bs []*mbox) *mbox {
	return bs[uni(t, "box", len(bs))]
}

func pickMsg(t *rapid.T, xs []*mmsg) *mmsg {
	return xs[uni(t, "msg", len(xs))]
}

func nonInbox(m *model) []*mbox {
	var r []*mbox

	for _, b := range m.boxes {
		if b.name != "INBOX" {
			r = append(r, b)
		}
	}

	return r
}

func drawFlags(t *rapid.T) []string {
	mask := uni(t, "flags", 1<<len(connFlags))

	var r []string

	for i, f := range connFlags {
		if mask&(1<<i) != 0 {
			r = append(r, f)
		}
	}

	return r
}

// drawBoxes picks up to max distinct live mailboxes.
func drawBoxes(t *rapid.T, m *model, max int) []imap.MailboxID {
	pool := append([]*mbox(nil), m.boxes...)
	n := uni(t, "nBoxes", max+1)

	var r []imap.MailboxID

	for i := 0; i < n && len(pool) > 0; i++ {
		j := uni(t, "box", len(pool))
		r = append(r, pool[j].rid)
		pool = append(pool[:j], pool[j+1:]...)
	}

	return r
}

func ridsOf(bs []*mbox) []imap.MailboxID {
	r := make([]imap.MailboxID, 0, len(bs))
	for _, b := range bs {
		r = append(r, b.rid)
	}

	return r
}

// target picks a message id: mostly a live one, sometimes a never existing one, sometimes a deleted one.
func (g *gen) target(t *rapid.T, m *model) (imap.MessageID, *mmsg) {
	live, retired := m.liveMsgs(), m.retiredMsgs()

	switch v := uni(t, "target", 10); {
	case v <= 7 && len(live) > 0:
		x := pickMsg(t, live)
		return x.rid, x
	case v == 9 && len(retired) > 0:
		x := pickMsg(t, retired)
		return x.rid, x
	default:
		return g.bogusMsg(), nil
	}
}

// boxList draws the mailbox list of a message update: valid lists, the current memberships, lists with an unknown or
// the protected id, and (dups allowed) lists naming a mailbox twice.
func (g *gen) boxList(t *rapid.T, m *model, x *mmsg, dups bool) []imap.MailboxID {
	switch v := uni(t, "boxList", 12); {
	case v <= 6:
		return drawBoxes(t, m, 3)
	case v == 7 && x != nil:
		return ridsOf(m.boxesOf(x))
	case v == 8:
		return append(drawBoxes(t, m, 2), g.bogusBox())
	case v == 9:
		return append(drawBoxes(t, m, 2), recoveryRID)
	case v == 10 && dups:
		r := drawBoxes(t, m, 2)
		if len(r) > 0 {
			r = append(r, r[0])
		}

		return r
	default:
		return drawBoxes(t, m, 1)
	}
}

func (g *gen) update(t *rapid.T, e *env, kind string) *desc {
	m := e.m
	d := e.newDesc(kind)
	v := uni(t, "variant", 10)

	switch kind {
	case kMailboxCreated:
		gone := m.goneBoxes()

		switch {
		case v == 6:
			b := pickBox(t, m.boxes)
			d.boxRID, d.name = b.rid, b.name
		case v == 7:
			d.boxRID, d.name = recoveryRID, g.name(t, m)
		case v == 8:
			d.boxRID, d.name = g.boxRID(), pickBox(t, m.boxes).name

			if uni(t, "recoveryName", 4) == 0 {
				d.name = recoveryName
			}
		case v == 9 && len(gone) > 0:
			b := pickBox(t, gone)
			d.boxRID, d.name = b.rid, b.name
		default:
			d.boxRID, d.name = g.boxRID(), g.name(t, m)
		}

	case kMailboxDeleted:
		gone, cand := m.goneBoxes(), nonInbox(m)

		switch {
		case v <= 4 && len(cand) > 0:
			d.boxRID = pickBox(t, cand).rid
		case v == 7 && len(gone) > 0:
			d.boxRID = pickBox(t, gone).rid
		case v >= 8:
			d.boxRID = recoveryRID
		default:
			d.boxRID = g.bogusBox()
		}

	case kMailboxUpdated:
		gone, cand := m.goneBoxes(), nonInbox(m)

		switch {
		case v <= 4 && len(cand) > 0:
			d.boxRID, d.name = pickBox(t, cand).rid, g.name(t, m)
		case v == 5 && len(cand) > 0:
			b := pickBox(t, cand)
			d.boxRID, d.name = b.rid, b.name
		case v == 6 && len(cand) > 0:
			d.boxRID, d.name = pickBox(t, cand).rid, pickBox(t, m.boxes).name
		case v == 7 && len(cand) > 0:
			// the current name in another letter case: a rename like any other (only INBOX is case-insensitive)
			b := pickBox(t, cand)
			d.boxRID, d.name = b.rid, swapLetterCase(b.name)
		case v == 8 && len(gone) > 0:
			d.boxRID, d.name = pickBox(t, gone).rid, g.name(t, m)
		case v == 9:
			d.boxRID, d.name = recoveryRID, g.name(t, m)
		default:
			d.boxRID, d.name = g.bogusBox(), g.name(t, m)
		}

	case kMailboxIDChanged:
		b := pickBox(t, m.boxes)
		d.boxKey, d.newBoxRID = b.key, g.boxRID()

		switch v {
		case 5:
			d.newBoxRID = b.rid
		case 6:
			d.newBoxRID = pickBox(t, m.boxes).rid
		case 7:
			d.newBoxRID = recoveryRID
		case 8:
			d.bogus = 1
		case 9:
			d.bogus = 2
		}

	case kMessagesCreated:
		d.ignoreUnknown = rapid.Bool().Draw(t, "ignoreUnknown")
		d.items = g.batch(t, m)

	case kMessageMailboxes:
		rid, x := g.target(t, m)
		d.msgRID, d.boxes, d.flags = rid, g.boxList(t, m, x, true), drawFlags(t)

		if x != nil && rapid.Bool().Draw(t, "sameFlags") {
			d.flags = flagList(x.flags)
		}

	case kMessageFlags:
		rid, x := g.target(t, m)
		d.msgRID, d.flags = rid, drawFlags(t)

		if x != nil && uni(t, "sameFlags", 4) == 0 {
			d.flags = flagList(x.flags)
		}

	case kMessageIDChanged:
		live := m.liveMsgs()
		d.newMsgRID = g.msgRID()

		if len(live) == 0 || v >= 8 {
			d.bogus = 1
			break
		}

		x := pickMsg(t, live)
		d.msgKey = x.key

		switch v {
		case 6:
			d.newMsgRID = x.rid
		case 7:
			d.newMsgRID = pickMsg(t, live).rid
		}

	case kMessageDeleted:
		live, retired := m.liveMsgs(), m.retiredMsgs()

		switch {
		case v <= 5 && len(live) > 0:
			d.msgRID = pickMsg(t, live).rid
		case v >= 8 && len(retired) > 0:
			d.msgRID = pickMsg(t, retired).rid
		default:
			d.msgRID = g.bogusMsg()
		}

	case kMessageUpdated:
		live := m.liveMsgs()
		d.allowCreate = rapid.Bool().Draw(t, "allowCreate")
		d.flags = drawFlags(t)

		if v <= 6 && len(live) > 0 {
			x := pickMsg(t, live)
			d.msgRID, d.marker, d.literal = x.rid, x.marker, x.literal

			if rapid.Bool().Draw(t, "newLiteral") {
				d.marker = g.marker()
				d.literal = mach.Msg(d.marker, "replaced")
			}

			if uni(t, "sameFlags", 3) == 0 {
				d.flags = flagList(x.flags)
			}

			d.boxes = g.boxList(t, m, x, false)
		} else {
			d.msgRID, d.marker = g.msgRID(), g.marker()
			d.literal = mach.Msg(d.marker, "updated-or-created")
			d.boxes = g.boxList(t, m, nil, false)
		}
	}

	return d
}

// batch draws the elements of a MessagesCreated: sizes 0 … 1 200, new and known messages, messages repeated inside the
// batch, several mailboxes per message, unknown and protected mailbox ids. Large batches are built from three draws.
func (g *gen) batch(t *rapid.T, m *model) []item {
	var n int

	switch sc := uni(t, "sizeClass", 100); {
	case sc == 50:
		n = 0
	case sc == 51:
		n = rapid.IntRange(900, 1200).Draw(t, "bigN")
	case sc >= 85:
		n = rapid.IntRange(5, 40).Draw(t, "midN")
	default:
		n = rapid.IntRange(1, 4).Draw(t, "n")
	}

	if n > 40 {
		distinct := n
		if rapid.Bool().Draw(t, "bigRepeats") {
			distinct = n - n/4
		}

		k := rapid.IntRange(1, 3).Draw(t, "bigBoxes")
		if k > len(m.boxes) {
			k = len(m.boxes)
		}

		first := rapid.IntRange(0, len(m.boxes)-1).Draw(t, "bigFirstBox")
		fresh := make([]item, distinct)

		for i := range fresh {
			mk := g.marker()
			fresh[i] = item{rid: g.msgRID(), marker: mk, literal: mach.Msg(mk, "bulk"), flags: connFlags[:i%3]}
		}

		items := make([]item, 0, n)

		for i := 0; i < n; i++ {
			it := fresh[i%distinct]
			it.boxes = []imap.MailboxID{m.boxes[(first+i)%k].rid}

			if i%7 == 0 && k > 1 {
				it.boxes = append(it.boxes, m.boxes[(first+i+1)%k].rid)
			}

			items = append(items, it)
		}

		return items
	}

	live := m.liveMsgs()
	items := make([]item, 0, n)

	// one batch in six names ONE unknown mailbox in several of its elements (a mailbox the connector has not announced
	// yet, or has deleted, usually holds more than one message of a batch)
	var shared imap.MailboxID

	if n >= 2 && uni(t, "sharedUnknownBox", 6) == 0 {
		shared = g.bogusBox()
	}

	for i := 0; i < n; i++ {
		var it item

		switch r := uni(t, "itemKind", 10); {
		case r >= 8 && len(items) > 0:
			it = items[rapid.IntRange(0, len(items)-1).Draw(t, "repeatOf")]
			it.flags = drawFlags(t)
		case r >= 6 && len(live) > 0:
			x := pickMsg(t, live)
			it = item{rid: x.rid, marker: x.marker, literal: x.literal, flags: drawFlags(t)}
		default:
			mk := g.marker()
			it = item{rid: g.msgRID(), marker: mk, literal: mach.Msg(mk, "remote"), flags: drawFlags(t)}
		}

		it.boxes = drawBoxes(t, m, 3)

		switch uni(t, "badBox", 20) {
		case 0:
			it.boxes = append(it.boxes, g.bogusBox())
		case 1:
			it.boxes = append(it.boxes, recoveryRID)
		}

		if shared != "" && (i < 2 || rapid.Bool().Draw(t, "inSharedUnknown")) {
			if rapid.Bool().Draw(t, "sharedFirst") {
				it.boxes = append([]imap.MailboxID{shared}, it.boxes...)
			} else {
				it.boxes = append(it.boxes, shared)
			}
		}

		items = append(items, it)
	}

	return items
}

// command draws a client command that is valid for the current model (nil if none of the drawn kind is possible).
func (g *gen) command(t *rapid.T, e *env) *cmd {
	m := e.m
	c := &cmd{boxKey: -1, dstKey: -1, msgKey: -1}

	ops := []string{"append", "append", "append", "store", "store", "store", "markdel", "delexp", "delexp", "copy", "copy", "move", "move", "create", "rename", "delete", "select", "noop"}
	c.op = ops[uni(t, "cmd", len(ops))]

	var filled []*mbox

	for _, b := range m.boxes {
		if len(b.entries) > 0 && len(b.entries) <= 60 {
			filled = append(filled, b)
		}
	}

	pickEntry := func() bool {
		if len(filled) == 0 {
			return false
		}

		b := pickBox(t, filled)
		en := b.entries[rapid.IntRange(0, len(b.entries)-1).Draw(t, "entry")]
		c.boxKey, c.msgKey = b.key, en.msg.key

		return true
	}

	switch c.op {
	case "append":
		c.boxKey = pickBox(t, m.boxes).key
		c.marker = g.marker()
		c.flags = drawFlags(t)

		var keep []string

		for _, f := range c.flags { // the flags the connector is told at CreateMessage; keywords stay out of the client side
			if f[0] == '\\' {
				keep = append(keep, f)
			}
		}

		c.flags = keep

	case "select":
		c.boxKey = pickBox(t, m.boxes).key

	case "store":
		if !pickEntry() {
			return nil
		}

		// only the flags gluon reports to the connector (MarkMessagesSeen / MarkMessagesFlagged): an echo then restates
		// exactly the state the command left
		c.flag = []string{`\Seen`, `\Flagged`}[rapid.IntRange(0, 1).Draw(t, "flag")]
		c.plus = !m.msgs[c.msgKey].flags[c.flag]

	case "markdel", "delexp":
		if !pickEntry() {
			return nil
		}

	case "copy", "move":
		if !pickEntry() {
			return nil
		}

		var cand []*mbox

		for _, b := range m.boxes {
			if b.index(m.msgs[c.msgKey]) < 0 {
				cand = append(cand, b)
			}
		}

		if len(cand) == 0 {
			return nil
		}

		c.dstKey = pickBox(t, cand).key

	case "create":
		g.nName++
		c.name = fmt.Sprintf("cl%d", g.nName)

	case "rename":
		// leaves only: gluon renames the inferiors of a client RENAME locally and leaves it to the remote to rename them
		// on its side (state.Rename: "Locally update all inferiors so we don't wait for update"); vconn does not
		var cand []*mbox

		for _, b := range nonInbox(m) {
			leaf := true

			for _, o := range m.boxes {
				if strings.HasPrefix(o.name, b.name+"/") {
					leaf = false
				}
			}

			if leaf {
				cand = append(cand, b)
			}
		}

		if len(cand) == 0 {
			return nil
		}

		g.nName++
		c.boxKey, c.name = pickBox(t, cand).key, fmt.Sprintf("rn%d", g.nName)

	case "delete":
		var cand []*mbox

		for _, b := range nonInbox(m) {
			if m.delSubClash(b) && kf.Listed(kfDelSubClash) {
				ev.Excluded(1)
				continue
			}

			cand = append(cand, b)
		}

		if len(cand) == 0 {
			return nil
		}

		c.boxKey = pickBox(t, cand).key
	}

	return c
}

// swapLetterCase swaps the case of every ASCII letter of the last name component.
func swapLetterCase(name string) string {
	start := strings.LastIndexByte(name, '/') + 1
	b := []byte(name)

	for i := start; i < len(b); i++ {
		if c := b[i]; c >= 'a' && c <= 'z' || c >= 'A' && c <= 'Z' {
			b[i] ^= 0x20
		}
	}

	return string(b)
}
