#!/bin/bash
# usage: git -C /repo worktree add --detach /tmp/wt-c06 HEAD; props/c06/sensitivity.sh M1 M2 M3 M4 M4b M5 M6 M7 M8 M9; git -C /repo worktree remove --force /tmp/wt-c06
export GOFLAGS=-mod=mod GOPROXY=off GOSUMDB=off GOTOOLCHAIN=local
cd /verif
for m in "$@"; do
  git -C /tmp/wt-c06 checkout -q . 
  python3 /verif/props/c06/sensitivity_mutate.py $m || { echo "$m: mutate failed"; continue; }
  (cd /tmp/wt-c06 && go build -tags verif ./internal/backend/ ./internal/state/ ) || { echo "$m: build failed"; continue; }
  start=$(date +%s)
  VERIF_REPO_DIR=/tmp/wt-c06 ./check C06 --tier quick > /tmp/c06-sens-$m.log 2>&1
  rc=$?
  end=$(date +%s)
  echo "$m: exit=$rc wall=$((end-start))s violation=$(grep -c '^VIOLATION' /tmp/c06-sens-$m.log) "
  for r in $(grep '^VIOLATION' /tmp/c06-sens-$m.log | sed 's/.*replay=//'); do grep -m1 -o 'C06 violated.*' $r | cut -c1-420; done
done
git -C /tmp/wt-c06 checkout -q .
