package c06

import (
	"os"
	"testing"

	"github.com/ProtonMail/gluon/imap"
)

// TestScriptEveryKind is a fixed sequence (no draws) through the same executor and oracle: every kind valid, delivered
// twice, then invalid variants, with an observer that follows the affected mailbox and an acting session whose echoes
// are delivered twice. It documents the semantics the generator assumes and fails fast when one of them breaks.
func TestScriptEveryKind(t *testing.T) {
	e := newEnv(t, caseCfg{twoSessions: true}, false)
	defer e.close()

	g := &gen{}
	e.compare("start", false, nil)

	upd := func(times int, fill func(d *desc), kind string) *desc {
		d := e.newDesc(kind)
		fill(d)
		e.exec(step{op: "upd", d: d, times: times, focus: true})

		return d
	}

	lit := func(mk string) []byte { return machMsg(mk, "remote") }
	inbox := e.m.boxes[0]

	// mailboxes
	a := upd(2, func(d *desc) { d.boxRID, d.name = "rb-a", "A" }, kMailboxCreated)
	upd(2, func(d *desc) { d.boxRID, d.name = "rb-b", "B" }, kMailboxCreated)
	upd(1, func(d *desc) { d.boxRID, d.name = "rb-as", "A/sub" }, kMailboxCreated)
	upd(1, func(d *desc) { d.boxRID, d.name = "rb-x", "A" }, kMailboxCreated)          // name taken
	upd(1, func(d *desc) { d.boxRID, d.name = recoveryRID, "R" }, kMailboxCreated)     // protected
	upd(1, func(d *desc) { d.boxRID, d.name = "rb-y", recoveryName }, kMailboxCreated) // protected name

	// messages: m1 in A and B, m2 in A, then m1 again (adds INBOX only), all in one batch; delivered twice
	mc := upd(2, func(d *desc) {
		d.items = []item{
			{rid: "rm-1", marker: "c1", literal: lit("c1"), flags: []string{`\Seen`}, boxes: []imap.MailboxID{"rb-a", "rb-b"}},
			{rid: "rm-2", marker: "c2", literal: lit("c2"), flags: []string{`kw1`, `\Draft`}, boxes: []imap.MailboxID{"rb-a"}},
			{rid: "rm-1", marker: "c1", literal: lit("c1"), flags: []string{`\Flagged`}, boxes: []imap.MailboxID{inbox.rid, "rb-a"}},
		}
	}, kMessagesCreated)
	upd(1, func(d *desc) {
		d.items = []item{{rid: "rm-3", marker: "c3", literal: lit("c3"), boxes: []imap.MailboxID{"rb-a", "nope"}}}
	}, kMessagesCreated) // unknown mailbox: refused as a whole
	upd(2, func(d *desc) {
		d.ignoreUnknown = true
		d.items = []item{{rid: "rm-3", marker: "c3", literal: lit("c3"), boxes: []imap.MailboxID{"rb-a", "nope"}}}
	}, kMessagesCreated)
	upd(1, func(d *desc) {
		d.items = []item{
			{rid: "rm-4", marker: "c4", literal: lit("c4"), boxes: []imap.MailboxID{"rb-a", recoveryRID}},
			{rid: "rm-5", marker: "c5", literal: lit("c5"), boxes: []imap.MailboxID{"rb-b"}},
		}
	}, kMessagesCreated) // the protected element is skipped
	upd(1, func(d *desc) {}, kMessagesCreated) // empty batch

	// flags and memberships
	upd(2, func(d *desc) { d.msgRID, d.flags = "rm-1", []string{`\Seen`, `\Answered`} }, kMessageFlags)
	upd(1, func(d *desc) { d.msgRID, d.flags = "nope", []string{`\Seen`} }, kMessageFlags)
	upd(2, func(d *desc) { d.msgRID, d.boxes, d.flags = "rm-2", []imap.MailboxID{"rb-b", inbox.rid}, []string{`\Flagged`} }, kMessageMailboxes)
	upd(1, func(d *desc) { d.msgRID, d.boxes = "rm-2", []imap.MailboxID{"rb-b", recoveryRID} }, kMessageMailboxes)
	upd(1, func(d *desc) { d.msgRID, d.boxes = "nope", []imap.MailboxID{"rb-b"} }, kMessageMailboxes)

	// client commands and their echoes (twice each)
	run := func(c cmd) { e.exec(step{op: "cmd", c: &c, echoTimes: 2}) }
	box := func(name string) int { return e.m.boxByName(name).key }
	msg := func(rid imap.MessageID) int { return e.m.msgByRID(rid).key }

	run(cmd{op: "append", boxKey: box("A"), dstKey: -1, msgKey: -1, marker: "c6", flags: []string{`\Seen`}})
	run(cmd{op: "store", boxKey: box("A"), dstKey: -1, msgKey: msg("rm-1"), flag: `\Flagged`, plus: true})
	run(cmd{op: "copy", boxKey: box("B"), dstKey: box("A"), msgKey: msg("rm-2")})
	run(cmd{op: "move", boxKey: box("A"), dstKey: box("A/sub"), msgKey: msg("rm-3")})
	run(cmd{op: "markdel", boxKey: box("B"), dstKey: -1, msgKey: msg("rm-5")})
	run(cmd{op: "delexp", boxKey: box("A/sub"), dstKey: -1, msgKey: msg("rm-3")})
	run(cmd{op: "create", boxKey: -1, dstKey: -1, msgKey: -1, name: "cl1"})
	run(cmd{op: "rename", boxKey: box("cl1"), dstKey: -1, msgKey: -1, name: "cl2"})
	run(cmd{op: "delete", boxKey: box("cl2"), dstKey: -1, msgKey: -1})

	// rename exactly one mailbox: "A/sub" keeps its name
	upd(2, func(d *desc) { d.boxRID, d.name = "rb-a", "Z" }, kMailboxUpdated)
	upd(1, func(d *desc) { d.boxRID, d.name = "rb-a", "B" }, kMailboxUpdated) // name taken
	upd(1, func(d *desc) { d.boxRID, d.name = "nope", "Q" }, kMailboxUpdated) // documented no-op
	upd(1, func(d *desc) { d.boxRID, d.name = recoveryRID, "Q" }, kMailboxUpdated)

	// id changes: later updates use the new ids, the old ones are unknown
	upd(2, func(d *desc) { d.boxKey, d.newBoxRID = box("B"), "rb-b2" }, kMailboxIDChanged)
	upd(1, func(d *desc) { d.boxKey, d.newBoxRID = box("Z"), "rb-b2" }, kMailboxIDChanged) // id taken
	upd(1, func(d *desc) { d.boxKey, d.newBoxRID, d.bogus = box("Z"), "rb-q", 1 }, kMailboxIDChanged)
	upd(1, func(d *desc) { d.boxKey, d.newBoxRID, d.bogus = box("Z"), "rb-q", 2 }, kMailboxIDChanged)
	upd(2, func(d *desc) { d.msgKey, d.newMsgRID = msg("rm-1"), "rm-1b" }, kMessageIDChanged)
	upd(1, func(d *desc) { d.msgKey, d.newMsgRID = msg("rm-2"), "rm-1b" }, kMessageIDChanged) // id taken
	upd(1, func(d *desc) { d.newMsgRID, d.bogus = "rm-q", 1 }, kMessageIDChanged)
	upd(1, func(d *desc) { d.msgRID, d.flags = "rm-1", []string{`kw1`} }, kMessageFlags) // old id: unknown
	upd(2, func(d *desc) { d.msgRID, d.boxes, d.flags = "rm-1b", []imap.MailboxID{"rb-b2"}, []string{`kw1`} }, kMessageMailboxes)
	upd(1, func(d *desc) { d.msgRID, d.boxes = "rm-1b", []imap.MailboxID{"rb-b"} }, kMessageMailboxes) // old mailbox id: not judged (lenient)

	// MessageUpdated
	x2 := e.m.msgByRID("rm-2")
	upd(2, func(d *desc) {
		d.msgRID, d.marker, d.literal, d.boxes, d.flags = "rm-2", x2.marker, x2.literal, []imap.MailboxID{inbox.rid, "rb-a"}, []string{`\Seen`}
	}, kMessageUpdated)
	upd(2, func(d *desc) {
		d.msgRID, d.marker, d.literal, d.boxes, d.flags = "rm-2", "c2v2", lit("c2v2"), []imap.MailboxID{"rb-a", "rb-b2"}, []string{`\Draft`}
	}, kMessageUpdated)
	upd(1, func(d *desc) {
		d.msgRID, d.marker, d.literal, d.boxes = "rm-2", "c2v3", lit("c2v3"), []imap.MailboxID{"rb-a", "nope"}
	}, kMessageUpdated) // unknown mailbox: refused, nothing changes
	upd(2, func(d *desc) { d.msgRID, d.marker, d.literal, d.boxes = "rm-7", "c7", lit("c7"), []imap.MailboxID{"rb-a"} }, kMessageUpdated) // unknown, no create: no-op
	upd(2, func(d *desc) {
		d.msgRID, d.marker, d.literal, d.boxes, d.allowCreate = "rm-7", "c7", lit("c7"), []imap.MailboxID{"rb-a", "nope"}, true
	}, kMessageUpdated) // created, unknown mailbox skipped
	upd(1, func(d *desc) { d.msgKey, d.newMsgRID = msg("rm-2"), "rm-2b" }, kMessageIDChanged) // internal id after the literal was replaced

	// re-delivery of old content after all that
	e.exec(step{op: "dup", d: a, times: 1, focus: true})
	e.exec(step{op: "dup", d: mc, times: 1, focus: true})

	// deletions
	upd(3, func(d *desc) { d.msgRID = "rm-1b" }, kMessageDeleted)
	upd(2, func(d *desc) { d.msgRID = "rm-2b" }, kMessageDeleted) // member of two mailboxes
	upd(1, func(d *desc) { d.msgRID = "nope" }, kMessageDeleted)
	upd(2, func(d *desc) { d.boxRID = "rb-a" }, kMailboxDeleted)
	upd(1, func(d *desc) { d.boxRID = recoveryRID }, kMailboxDeleted)
	upd(1, func(d *desc) { d.boxRID = "nope" }, kMailboxDeleted)

	upd(1, func(d *desc) {}, kUIDValidityBump)
	upd(2, func(d *desc) {}, kNoop)

	// a batch across the SQL chunk limit with repeated messages and two mailboxes, twice
	upd(2, func(d *desc) {
		for i := 0; i < 1100; i++ {
			j := i % 900
			mk := "bulk" + itoa(j)
			it := item{rid: imap.MessageID("rm-bulk-" + itoa(j)), marker: mk, literal: lit(mk), flags: connFlags[:j%3], boxes: []imap.MailboxID{inbox.rid}}

			if i >= 900 {
				it.boxes = []imap.MailboxID{"rb-b2"}
			}

			d.items = append(d.items, it)
		}
	}, kMessagesCreated)

	g.nName = 100
	e.exec(step{op: "progress", rid: g.boxRID(), name: "p", drop: true})

	if os.Getenv("C06_DUMP") != "" {
		for _, op := range e.ops {
			t.Log(op)
		}
	}

	for _, k := range allKinds {
		if e.kinds[k] == 0 {
			t.Errorf("script did not deliver %s", k)
		}
	}
}
