// Package c12 decides property C12: any message bytes yield well-formed ENVELOPE / BODY / BODYSTRUCTURE without
// crashing; reported parts lie inside the message and their parent; well-formed messages give back their MIME tree.
// See /verif/DESIGN.md "### C12".
package c12

import (
	"os"
	"path/filepath"
	"testing"

	"verif/internal/ev"
)

const rule = "input has >= 2 MIME levels, or the parser reports an error on it, or its nesting depth is >= 1000"

func TestMain(m *testing.M) {
	if os.Getenv(childEnvList) != "" {
		// child mode (deep / crash-prone inputs): no evidence part of its own
		os.Unsetenv("VERIF_PARTS_DIR")
	}

	ev.Main(m, "C12", "exploration", rule,
		"messages are at most the 30 MiB literal limit of the IMAP parser",
		"worst-case time of the MIME parser is super-linear by construction; termination is judged with a budget of max(60 s, c*n^2), slower inputs are inconclusive, never violations")
}

func verifRoot() string {
	if r := os.Getenv("VERIF_ROOT"); r != "" {
		return r
	}

	return "/verif"
}

func repoDir() string {
	if r := os.Getenv("VERIF_REPO_DIR"); r != "" {
		return r
	}

	return "/repo"
}

func foundDir() string {
	d := filepath.Join(verifRoot(), "replays", "c12", "found")
	_ = os.MkdirAll(d, 0o755)

	return d
}
