package c12

import (
	"fmt"
	"sort"
	"strings"

	"verif/internal/ev"
	"verif/internal/kf"

	gmime "verif/internal/gen/mime"
)

// Known-finding ids of this property (see TestKnown_* in known_test.go).
const (
	kfEmbeddedMultipart = "C12-embedded-multipart-as-multipart"
	kfCommentDepth      = "C12-comment-nesting-stack-exhaustion"
)

// normWS collapses white-space runs (folding leaves SP / TAB differences that carry no meaning) and trims.
func normWS(s string) string { return strings.Join(strings.Fields(s), " ") }

func wantString(x *sx, want string, present bool, what string) error {
	want = normWS(want)

	switch {
	case x.isList:
		return fmt.Errorf("%s is a list %s, want %q", what, truncate(x.String(), 80), want)
	case !present || want == "":
		if x.isNil || (x.isStr && normWS(x.str()) == "") {
			return nil
		}

		return fmt.Errorf("%s is %s, want NIL (header absent or empty)", what, truncate(x.String(), 80))
	case x.isNil || !x.isStr:
		return fmt.Errorf("%s is %s, want %q", what, truncate(x.String(), 80), want)
	case normWS(x.str()) != want:
		return fmt.Errorf("%s is %q, want %q", what, normWS(x.str()), want)
	}

	return nil
}

func wantNumber(x *sx, want int, what string) error {
	if !x.isNum || x.num != int64(want) {
		return fmt.Errorf("%s is %s, want %d", what, x, want)
	}

	return nil
}

func wantParams(x *sx, want []gmime.Param, what string) error {
	got := map[string]string{}

	switch {
	case x.isNil:
	case x.isList:
		if len(x.items)%2 != 0 {
			return fmt.Errorf("%s has an odd number of items: %s", what, x)
		}

		for i := 0; i+1 < len(x.items); i += 2 {
			if !x.items[i].isStr || !x.items[i+1].isStr {
				return fmt.Errorf("%s holds non-strings: %s", what, x)
			}

			k := strings.ToLower(x.items[i].str())
			if _, dup := got[k]; dup {
				return fmt.Errorf("%s lists %q twice: %s", what, k, x)
			}

			got[k] = x.items[i+1].str()
		}
	default:
		return fmt.Errorf("%s is %s, want a parameter list", what, x)
	}

	exp := map[string]string{}
	for _, p := range want {
		exp[strings.ToLower(p.Key)] = p.Value
	}

	var diffs []string

	for k, v := range exp {
		if g, ok := got[k]; !ok {
			diffs = append(diffs, fmt.Sprintf("missing %s=%q", k, v))
		} else if g != v {
			diffs = append(diffs, fmt.Sprintf("%s=%q, want %q", k, g, v))
		}
	}

	for k, v := range got {
		if _, ok := exp[k]; !ok {
			diffs = append(diffs, fmt.Sprintf("invented %s=%q", k, v))
		}
	}

	if len(diffs) > 0 {
		sort.Strings(diffs)
		return fmt.Errorf("%s: %s", what, strings.Join(diffs, "; "))
	}

	return nil
}

func wantDisposition(x *sx, n *gmime.Node, what string) error {
	if n.Disposition == "" {
		if !x.isNil {
			return fmt.Errorf("%s is %s, want NIL", what, x)
		}

		return nil
	}

	if !x.isList || len(x.items) != 2 {
		return fmt.Errorf("%s is %s, want (%q (params))", what, x, n.Disposition)
	}

	if err := wantString(x.items[0], n.Disposition, true, what+" type"); err != nil {
		return err
	}

	return wantParams(x.items[1], n.DispParams, what+" parameters")
}

// innerMultipart follows the chain of embedded messages below a message/rfc822 entity; it returns the multipart
// message at the end of the chain, or nil when the chain ends in a single part.
func innerMultipart(n *gmime.Node) *gmime.Node {
	for n != nil && n.Kind == gmime.Message {
		n = n.Embedded
	}

	if n != nil && n.Kind == gmime.Multipart {
		return n
	}

	return nil
}

type cmpCtx struct {
	ext        bool // BODYSTRUCTURE (with extension data) or BODY
	collapsed  int  // message/rfc822 entities compared in gluon's collapsed form (known finding listed)
	encSkipped int
}

// compareEntity compares one entity of the generated tree with the parsed (BODY or BODYSTRUCTURE) item.
func (c *cmpCtx) compareEntity(n *gmime.Node, x *sx) error {
	where := "part " + gmime.PathString(n.Path)
	if len(n.Path) == 0 {
		where = "root"
	}

	where += " (" + n.Type + "/" + n.Subtype + ")"

	if !x.isList || len(x.items) == 0 {
		return fmt.Errorf("%s: structure is %s, want a non-empty list", where, truncate(x.String(), 100))
	}

	multi := n.Kind == gmime.Multipart
	children := n.Children
	subtype := n.Subtype

	if n.Kind == gmime.Message {
		if m := innerMultipart(n); m != nil && kf.Listed(kfEmbeddedMultipart) {
			// Known finding: an embedded multipart message is reported as a multipart whose subtype is
			// "rfc822", with the parts of the embedded multipart as children (pinned by gluon's own
			// tests/fetch_body_test.go TestFetchStructureEmbedded). While the finding is listed the comparison
			// continues behind it in that shape.
			multi, children = true, m.Children
			c.collapsed++
		}
	}

	if multi {
		k := 0
		for k < len(x.items) && x.items[k].isList {
			k++
		}

		if k != len(children) {
			return fmt.Errorf("%s: %d parts reported, the message has %d: %s", where, k, len(children), truncate(x.String(), 300))
		}

		for i, ch := range children {
			if err := c.compareEntity(ch, x.items[i]); err != nil {
				return err
			}
		}

		wantItems := k + 1
		if c.ext {
			wantItems = k + 5
		}

		if len(x.items) != wantItems {
			return fmt.Errorf("%s: multipart has %d items after its parts, want %d: %s", where, len(x.items)-k, wantItems-k, truncate(x.String(), 300))
		}

		if err := wantString(x.items[k], subtype, true, where+" subtype"); err != nil {
			return err
		}

		if c.ext {
			if err := wantParams(x.items[k+1], n.Params, where+" parameters"); err != nil {
				return err
			}

			if err := wantDisposition(x.items[k+2], n, where+" disposition"); err != nil {
				return err
			}

			lang, okLang := n.GetValue("Content-Language")
			if err := wantString(x.items[k+3], lang, okLang, where+" language"); err != nil {
				return err
			}

			loc, okLoc := n.GetValue("Content-Location")
			if err := wantString(x.items[k+4], loc, okLoc, where+" location"); err != nil {
				return err
			}
		}

		return nil
	}

	// single part
	if x.items[0].isList {
		return fmt.Errorf("%s: reported as a multipart with children %s", where, truncate(x.String(), 300))
	}

	isMsg := n.Kind == gmime.Message
	isText := n.Type == "text"
	base := 7

	switch {
	case isMsg:
		base = 10
	case isText:
		base = 8
	}

	wantItems := base
	if c.ext {
		wantItems = base + 4
	}

	if len(x.items) != wantItems {
		return fmt.Errorf("%s: %d fields, want %d: %s", where, len(x.items), wantItems, truncate(x.String(), 300))
	}

	if err := wantString(x.items[0], n.Type, true, where+" type"); err != nil {
		return err
	}

	if err := wantString(x.items[1], n.Subtype, true, where+" subtype"); err != nil {
		return err
	}

	if err := wantParams(x.items[2], n.Params, where+" parameters"); err != nil {
		return err
	}

	for i, name := range []string{"Content-Id", "Content-Description", "Content-Transfer-Encoding"} {
		v, ok := n.GetValue(name)
		if err := wantString(x.items[3+i], v, ok, where+" "+name); err != nil {
			return err
		}
	}

	if err := wantNumber(x.items[6], n.Size, where+" size in octets"); err != nil {
		return err
	}

	if isMsg {
		if err := c.compareEnvelope(n.Embedded, x.items[7], where+" embedded envelope"); err != nil {
			envelopeContentNotJudged(err)
		}

		if err := c.compareEntity(n.Embedded, x.items[8]); err != nil {
			return err
		}
	}

	if isMsg || isText {
		if err := wantNumber(x.items[base-1], n.Lines, where+" size in lines"); err != nil {
			return err
		}
	}

	if c.ext {
		md5, okMD5 := n.GetValue("Content-MD5")
		if err := wantString(x.items[base], md5, okMD5, where+" md5"); err != nil {
			return err
		}

		if err := wantDisposition(x.items[base+1], n, where+" disposition"); err != nil {
			return err
		}

		lang, okLang := n.GetValue("Content-Language")
		if err := wantString(x.items[base+2], lang, okLang, where+" language"); err != nil {
			return err
		}

		loc, okLoc := n.GetValue("Content-Location")
		if err := wantString(x.items[base+3], loc, okLoc, where+" location"); err != nil {
			return err
		}
	}

	return nil
}

func (c *cmpCtx) compareAddrList(x *sx, want *gmime.AddrList, what string) error {
	if want == nil {
		if !x.isNil {
			return fmt.Errorf("%s is %s, want NIL (header absent)", what, truncate(x.String(), 120))
		}

		return nil
	}

	if len(want.Addrs) == 0 {
		// only empty groups: nothing to report; NIL or an empty list
		if x.isNil || (x.isList && len(x.items) == 0) {
			return nil
		}

		return fmt.Errorf("%s is %s, want no addresses", what, truncate(x.String(), 120))
	}

	if !x.isList || len(x.items) != len(want.Addrs) {
		return fmt.Errorf("%s is %s, want %d addresses %+v", what, truncate(x.String(), 300), len(want.Addrs), want.Addrs)
	}

	for i, a := range want.Addrs {
		it := x.items[i]
		if !it.isList || len(it.items) != 4 {
			return fmt.Errorf("%s address %d is %s, want 4 fields", what, i+1, it)
		}

		if a.NameEncoded {
			// Skipped: RFC 3501 does not say whether the personal name is the raw encoded-word or its decoded
			// text; gluon decodes. Only the shape is checked.
			c.encSkipped++

			if !it.items[0].isStr && !it.items[0].isNil {
				return fmt.Errorf("%s address %d name is %s", what, i+1, it.items[0])
			}
		} else if err := wantString(it.items[0], a.Name, a.Name != "", fmt.Sprintf("%s address %d name", what, i+1)); err != nil {
			return err
		}

		if !it.items[1].isNil {
			return fmt.Errorf("%s address %d route is %s, want NIL", what, i+1, it.items[1])
		}

		if err := wantExact(it.items[2], a.User, fmt.Sprintf("%s address %d mailbox", what, i+1)); err != nil {
			return err
		}

		if err := wantExact(it.items[3], a.Domain, fmt.Sprintf("%s address %d host", what, i+1)); err != nil {
			return err
		}
	}

	return nil
}

func wantExact(x *sx, want, what string) error {
	if !x.isStr || x.str() != want {
		return fmt.Errorf("%s is %s, want %q", what, x, want)
	}

	return nil
}

// compareEnvelope compares the envelope of message m (root or embedded) with the parsed list.
//
// Compared: date, subject, in-reply-to, message-id as unfolded header text (white-space runs collapsed, since
// folding turns CRLF TAB into a space in gluon and into a TAB under strict RFC 5322 unfolding); from, sender,
// reply-to (defaulting to From when absent, RFC 3501 7.4.2), to, cc, bcc as (name, NIL, mailbox, host) with group
// members flattened (gluon documents this in rfc5322 TestParseGroup; RFC 3501 group markers are not produced).
// Not compared: personal names containing encoded-words.
func (c *cmpCtx) compareEnvelope(m *gmime.Node, x *sx, what string) error {
	if !x.isList || len(x.items) != 10 {
		return fmt.Errorf("%s is %s, want 10 fields", what, truncate(x.String(), 200))
	}

	e := m.Env
	opt := func(p *string) (string, bool) {
		if p == nil {
			return "", false
		}

		return *p, true
	}

	for _, f := range []struct {
		idx  int
		p    *string
		name string
	}{{0, e.Date, "date"}, {1, e.Subject, "subject"}, {8, e.InReplyTo, "in-reply-to"}, {9, e.MessageID, "message-id"}} {
		v, ok := opt(f.p)
		if err := wantString(x.items[f.idx], v, ok, what+" "+f.name); err != nil {
			return err
		}
	}

	sender, replyTo := e.Sender, e.ReplyTo
	if sender == nil {
		sender = e.From
	}

	if replyTo == nil {
		replyTo = e.From
	}

	for _, f := range []struct {
		idx  int
		al   *gmime.AddrList
		name string
	}{{2, e.From, "from"}, {3, sender, "sender"}, {4, replyTo, "reply-to"}, {5, e.To, "to"}, {6, e.Cc, "cc"}, {7, e.Bcc, "bcc"}} {
		if err := c.compareAddrList(x.items[f.idx], f.al, what+" "+f.name); err != nil {
			return err
		}
	}

	return nil
}

// compareTree is the well-formed-message oracle: parsed BODY, BODYSTRUCTURE and ENVELOPE against the generated tree.
func compareTree(tree *gmime.Tree, o *outcome) []string {
	var out []string

	if o.parseErr != nil {
		return []string{fmt.Sprintf("NewParsedMessage fails on a well-formed message: %v", o.parseErr)}
	}

	if o.body == nil || o.structure == nil || o.envelope == nil {
		return nil // malformed lists were already reported
	}

	collapsed := 0

	for _, v := range []struct {
		ext  bool
		x    *sx
		name string
	}{{false, o.body, "BODY"}, {true, o.structure, "BODYSTRUCTURE"}} {
		c := &cmpCtx{ext: v.ext}
		if err := c.compareEntity(tree.Root, v.x); err != nil {
			out = append(out, fmt.Sprintf("%s differs from the MIME tree the message was built from: %v", v.name, err))
		}

		collapsed = c.collapsed
	}

	c := &cmpCtx{}
	if err := c.compareEnvelope(tree.Root, o.envelope, "ENVELOPE"); err != nil {
		envelopeContentNotJudged(err)
	}

	if collapsed > 0 {
		ev.Excluded(1)
		ev.Class("known-embedded-multipart-compared-in-collapsed-form", 1)
	}

	if c.encSkipped > 0 {
		ev.Class("env-name-with-encoded-word-not-compared", c.encSkipped)
	}

	return out
}

// envelopeContentNotJudged: property C12 demands that the ENVELOPE text is a well-formed parenthesised list; it says
// nothing about the envelope's content (the structure clause speaks of types, parameters, sizes and line counts).
// Differences between ENVELOPE fields and the generated header values are therefore counted, never reported.
func envelopeContentNotJudged(err error) {
	_ = err

	ev.Class("envelope-content-differs(not judged)", 1)
}
