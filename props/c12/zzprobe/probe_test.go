package zzprobe
import ("testing";"fmt";"time";"os";"strconv";"github.com/ProtonMail/gluon/imap";"github.com/ProtonMail/gluon/rfc822"; gm "verif/internal/gen/mime")
func TestDeep(t *testing.T){
 kind := os.Getenv("K"); d,_ := strconv.Atoi(os.Getenv("D"))
 var b []byte
 switch kind { case "mp": b = gm.DeepMultipart(d,false,true,false); case "mpsame": b = gm.DeepMultipart(d,true,false,false); case "msg": b = gm.DeepMessage(d,false); case "mix": b = gm.DeepMixed(d); case "c0": b = gm.DeepComment(d,true,"To",0); case "c0open": b = gm.DeepComment(d,false,"To",0); case "c3": b=gm.DeepComment(d,true,"To",3) }
 t0 := time.Now()
 pm, err := imap.NewParsedMessage(b)
 t1 := time.Since(t0)
 n := 0
 t0 = time.Now()
 _ = rfc822.Parse(b).Walk(func(*rfc822.Section) error { n++; return nil })
 sl := 0; if pm != nil { sl = len(pm.Structure) }
 fmt.Printf("%s depth=%d bytes=%d parsed=%v err=%v structlen=%d  NewParsedMessage=%v Walk=%v sections=%d\n", kind, d, len(b), pm!=nil, err, sl, t1, time.Since(t0), n)
}
