package c12

import (
	"bytes"
	"fmt"
	"hash/fnv"
	"io"
	"os"
	"path/filepath"
	"strings"
	"testing"

	"github.com/ProtonMail/gluon/rfcvalidation"
	"github.com/sirupsen/logrus"
	"pgregory.net/rapid"

	"verif/internal/ev"
	"verif/internal/kf"

	gmime "verif/internal/gen/mime"
)

func init() {
	// the code under test logs every rejected content type / address at warn / error level
	logrus.SetOutput(io.Discard)
	logrus.SetLevel(logrus.PanicLevel)
}

func hash64(b []byte) uint64 {
	h := fnv.New64a()
	_, _ = h.Write(b)

	return h.Sum64()
}

// record does the evidence bookkeeping of one input.
func record(b []byte, o *outcome, class string, levels int, deep bool, labels ...string) {
	if o != nil && o.depth > levels {
		levels = o.depth
	}

	nontrivial := levels >= 2 || deep || (o != nil && o.parserReportedError())
	ls := append([]string{class}, labels...)

	switch {
	case o == nil:
	case o.parseErr != nil:
		ls = append(ls, "outcome:NewParsedMessage-error")
	case o.walkErr != nil:
		ls = append(ls, "outcome:section-error")
	case o.addrErrs > 0:
		ls = append(ls, "outcome:address-list-rejected")
	default:
		ls = append(ls, "outcome:parsed")
	}

	switch {
	case levels >= 1000:
		ls = append(ls, "levels:>=1000")
	case levels >= 7:
		ls = append(ls, "levels:7-999")
	default:
		ls = append(ls, fmt.Sprintf("levels:%d", levels))
	}

	ev.Case(nontrivial, hash64(b), ls...)

	if ev.WantSample() {
		s := map[string]any{"class": class, "bytes": len(b), "input": truncate(fmt.Sprintf("%q", truncateBytes(b, 700)), 1600), "labels": labels}
		if o != nil && o.pm != nil {
			s["envelope"], s["bodystructure"] = truncate(o.pm.Envelope, 500), truncate(o.pm.Structure, 700)
		}

		if o != nil && o.parseErr != nil {
			s["error"] = o.parseErr.Error()
		}

		ev.Sample(s)
	} else {
		ev.Sample(nil)
	}
}

func truncateBytes(b []byte, n int) []byte {
	if len(b) > n {
		return b[:n]
	}

	return b
}

// ---- (i) raw bytes ---------------------------------------------------------------------------------------------------

var rawTokens = []string{"Content-Type: ", "content-type:", "multipart/mixed", "multipart/", "message/rfc822", "text/plain", "; boundary=", "boundary=\"",
	"--", "--b", "--b--", "b", "\r\n", "\n", "\r", "\r\n\r\n", "\n\n", " ", "\t", "(", ")", "\"", "\\", ":", ";", "=", "From: ", "To: ", "Subject: ", "Date: ",
	"<", ">", "@", ",", "a", "x.y", "=?utf-8?q?", "=?utf-8?b?", "?=", "\x00", "\xff", "\x80", "Content-Disposition: ", "attachment; filename=", "charset=",
	"Content-Transfer-Encoding: base64", "[", "]", "*0=", "*=", "%41", "''", "{3}", "NIL", "0", "g:", "1.0", "-", "_", "é"}

func drawRaw(t *rapid.T) ([]byte, string) {
	switch rapid.IntRange(0, 3).Draw(t, "rawkind") {
	case 0:
		return rapid.SliceOfN(rapid.Byte(), 0, ev.Pick(400, 2000)).Draw(t, "bytes"), "raw-random-bytes"
	case 1:
		// random bytes behind a plausible multipart header
		tail := rapid.SliceOfN(rapid.Byte(), 0, 300).Draw(t, "bytes")
		return append([]byte("Content-Type: multipart/mixed; boundary=b\r\n\r\n--b\r\n"), tail...), "raw-bytes-after-multipart-header"
	default:
		toks := rapid.SliceOfN(rapid.SampledFrom(rawTokens), 0, ev.Pick(60, 300)).Draw(t, "tokens")
		return []byte(strings.Join(toks, "")), "raw-token-soup"
	}
}

func TestRawBytes(t *testing.T) {
	ev.Checks(16000, 40000)

	rapid.Check(t, func(t *rapid.T) {
		b, class := drawRaw(t)
		o := check(t, b, class)
		record(b, o, class, 0, false)
	})
}

// ---- (ii) well-formed trees --------------------------------------------------------------------------------------------

func treeConfig() gmime.Config {
	return gmime.Config{MaxBody: ev.Pick(4096, 1<<20), LargePct: ev.Pick(3, 5),
		// steering away from listed known findings (the full domain comes back when the entry is removed)
		SimpleGroups: kf.Listed(kfGroupMembers), NoDelimiterPadding: kf.Listed(kfDelimPadding), NoContentTypeComments: kf.Listed(kfCTComment)}
}

func treeLabels(tree *gmime.Tree) []string {
	ls := make([]string, 0, len(tree.Labels))
	for _, l := range tree.Labels {
		ls = append(ls, "gen:"+l)
	}

	return ls
}

func TestWellFormedTrees(t *testing.T) {
	ev.Checks(18000, 30000)

	rapid.Check(t, func(t *rapid.T) {
		tree := gmime.Draw(t, treeConfig())
		b := tree.Bytes

		for _, l := range tree.Labels {
			if strings.HasPrefix(l, "steered:") {
				ev.Excluded(1) // the generator replaced a drawn feature that belongs to a listed known finding
				break
			}
		}

		if err := rfcvalidation.ValidateMessageHeaderFields(b); err != nil {
			t.Fatalf("generator soundness: APPEND validation rejects a generated root message: %v\n%s", err, escaped(b))
		}

		o := check(t, b, "tree")

		if diffs := compareTree(tree, o); len(diffs) > 0 {
			p := saveFound(b, "tree-structure")
			t.Fatalf("VERIF-VIOLATION well-formed message, wrong structure:\n%s\nBODYSTRUCTURE %s\nENVELOPE %s\nsaved as %s\ninput: %s",
				strings.Join(diffs, "\n"), pmField(o, 1), pmField(o, 2), p, escaped(b))
		}

		if diffs := compareParts(tree); len(diffs) > 0 {
			p := saveFound(b, "tree-parts")
			t.Fatalf("VERIF-VIOLATION well-formed message, wrong section:\n%s\nsaved as %s\ninput: %s", strings.Join(diffs, "\n"), p, escaped(b))
		}

		record(b, o, "tree", tree.Levels, false, treeLabels(tree)...)
	})
}

func pmField(o *outcome, which int) string {
	if o == nil || o.pm == nil {
		return "<none>"
	}

	if which == 1 {
		return o.pm.Structure
	}

	return o.pm.Envelope
}

// ---- (iii) mutations -----------------------------------------------------------------------------------------------------

func TestMutatedTrees(t *testing.T) {
	ev.Checks(16000, 40000)

	rapid.Check(t, func(t *rapid.T) {
		tree := gmime.Draw(t, gmime.Config{MaxBody: ev.Pick(2048, 65536), LargePct: 2, MaxNodes: 12})
		b, label := gmime.Mutate(t, tree)

		if rapid.IntRange(0, 9).Draw(t, "second") >= 7 {
			// a second, byte-level mutation on top
			at := rapid.IntRange(0, len(b)).Draw(t, "cut2")
			b = append([]byte{}, b[:at]...)
			label += "+cut"
		}

		o := check(t, b, label)
		record(b, o, "mutated", 0, false, label)
	})
}

// ---- (iv) repository corpora ---------------------------------------------------------------------------------------------

// seeds of the repository's four fuzz targets (imap FuzzNewParsedMessage adds two testdata files, read below)
var repoFuzzSeeds = []string{
	"From: Sender <sender@pm.me>\n\tTo: Receiver <receiver@pm.me>\n\tContent-Transfer-Encoding: base64\n\t\n\tYm9keQ==\n\t",
	"Content-Type: multipart/alternative; boundary=\"------------62DCF50B21CF279F489F0184\"\r\n\r\n\r\n" +
		"--------------62DCF50B21CF279F489F0184\r\nContent-Type: text/plain; charset=utf-8; format=flowed\r\n" +
		"Content-Transfer-Encoding: 7bit\r\n\r\n*this */is**/_html_\r\n**\r\n\r\n--------------62DCF50B21CF279F489F0184\r\n" +
		"Content-Type: text/html; charset=utf-8\r\nContent-Transfer-Encoding: 7bit\r\n<foo></foo>\r\n--------------62DCF50B21CF279F489F0184--\r\n",
	"Content-tYpe: multipArt/0;BoundArY=\"simple boundary\"\n\n--simple boundary\r",
}

var repoAddressSeeds = []string{
	"abcdefghijklmnopqrstuvwxyzabcdefghijklmnopqrstuvwxyzabcdefghiklm@iana.org",
	"!#$%&`*+/=?^`{|}~@iana.org",
	`pete(his account)@silly.test(his host)`,
	` " foo bar derer " `,
	"00@[000000000000000",
	"<test@user.com>,",
	`A Group:Ed Jones <c@a.test>,joe@where.test,John <jdoe@one.test>;`,
	`"undisclosed recipients:;"`,
	`foo@bar, g:;; z@z`,
	`=?ISO-8859-1?Q?Andr=E9?= Pirard <PIRARD@vm1.ulg.ac.be>`,
	`first . last <user@domain.com>`,
}

func corpusInputs(t testing.TB) map[string][]byte {
	out := map[string][]byte{}

	for i, s := range repoFuzzSeeds {
		out[fmt.Sprintf("fuzzseed-%d", i)] = []byte(s)
	}

	for i, s := range repoAddressSeeds {
		out[fmt.Sprintf("addrseed-%d", i)] = []byte("Date: Mon, 7 Feb 1994 21:52:25 -0800\r\nFrom: " + s + "\r\nTo: " + s + "\r\n\r\nx\r\n")
	}

	for _, dir := range []string{"imap/testdata", "rfc822/testdata", "tests/testdata", "benchmarks/imaptest"} {
		files, _ := filepath.Glob(filepath.Join(repoDir(), dir, "*"))
		for _, f := range files {
			st, err := os.Stat(f)
			if err != nil || st.IsDir() || st.Size() > 40<<20 {
				continue
			}

			b, err := os.ReadFile(f)
			if err != nil {
				continue
			}

			name := dir + "/" + filepath.Base(f)
			out[name] = b

			// mbox files: every message on its own as well
			if bytes.HasPrefix(b, []byte("From ")) {
				for i, m := range bytes.Split(b, []byte("\nFrom ")) {
					if i < 400 {
						out[fmt.Sprintf("%s#%d", name, i)] = m
					}
				}
			}
		}
	}

	if len(out) < len(repoFuzzSeeds)+len(repoAddressSeeds)+5 {
		t.Fatalf("VERIF-INCONCLUSIVE: repository test data not found under %s", repoDir())
	}

	return out
}

func TestCorpus(t *testing.T) {
	if sh, _ := ev.Shard(); sh != 0 {
		t.Skip("corpus runs on shard 0 only")
	}

	in := corpusInputs(t)
	names := make([]string, 0, len(in))

	for n := range in {
		names = append(names, n)
	}

	sortStrings(names)

	for _, n := range names {
		b := in[n]
		o := check(t, b, "corpus")
		record(b, o, "corpus", 0, false)

		// every prefix class of the small files, and LF/CRLF flips
		if len(b) > 0 && len(b) < 8192 {
			for _, m := range [][]byte{bytes.ReplaceAll(b, []byte("\r\n"), []byte("\n")), bytes.ReplaceAll(bytes.ReplaceAll(b, []byte("\r\n"), []byte("\n")), []byte("\n"), []byte("\r\n")), b[:len(b)/2], b[:len(b)-1]} {
				o := check(t, m, "corpus-variant")
				record(m, o, "corpus-variant", 0, false)
			}
		}
	}
}

func sortStrings(s []string) {
	for i := 1; i < len(s); i++ {
		for j := i; j > 0 && s[j] < s[j-1]; j-- {
			s[j], s[j-1] = s[j-1], s[j]
		}
	}
}

// TestReplays: the committed regression inputs replays/c12/*.eml (minimal inputs of the known findings, hostile
// hand-written messages, shrunk failures of earlier rounds) through the general oracle.
func TestReplays(t *testing.T) {
	if sh, _ := ev.Shard(); sh != 0 {
		t.Skip("replays run on shard 0 only")
	}

	files, _ := filepath.Glob(filepath.Join(verifRoot(), "replays", "c12", "*.eml"))
	sortStrings(files)

	for _, f := range files {
		b, err := os.ReadFile(f)
		if err != nil {
			t.Fatalf("VERIF-INCONCLUSIVE: %v", err)
		}

		o := check(t, b, "replay")
		record(b, o, "replay", 0, false)
	}
}

// corpus files mutated structurally at the byte level under rapid
func TestCorpusMutations(t *testing.T) {
	in := corpusInputs(t)

	var small [][]byte

	names := make([]string, 0, len(in))
	for n := range in {
		names = append(names, n)
	}

	sortStrings(names)

	for _, n := range names {
		if len(in[n]) < 6000 {
			small = append(small, in[n])
		}
	}

	ev.Checks(5000, 10000)

	rapid.Check(t, func(t *rapid.T) {
		b := append([]byte{}, small[rapid.IntRange(0, len(small)-1).Draw(t, "file")]...)
		hostile := []byte{0, 0xff, '(', ')', '"', '\\', '\r', '\n', ':', ';', '=', '-', ' '}

		for i, n := 0, rapid.IntRange(1, 5).Draw(t, "nmut"); i < n && len(b) > 0; i++ {
			at := rapid.IntRange(0, len(b)-1).Draw(t, "at")

			switch rapid.IntRange(0, 3).Draw(t, "op") {
			case 0:
				b[at] = hostile[rapid.IntRange(0, len(hostile)-1).Draw(t, "val")]
			case 1:
				b = append(b[:at:at], b[at+1:]...)
			case 2:
				b = b[:at]
			default:
				to := rapid.IntRange(at, len(b)).Draw(t, "to")
				b = append(append(append([]byte{}, b[:to]...), b[at:to]...), b[to:]...)
			}
		}

		o := check(t, b, "corpus-mutated")
		record(b, o, "corpus-mutated", 0, false)
	})
}

// ---- (v) native fuzz targets ------------------------------------------------------------------------------------------------

func fuzzSeeds(f *testing.F, asString bool) {
	add := func(b []byte) {
		if asString {
			f.Add(string(b))
		} else {
			f.Add(b)
		}
	}

	if asString {
		for _, s := range repoAddressSeeds {
			f.Add(s)
		}

		for _, s := range []string{"(((((((((", "a@b (c (d (e)))", `"\`, "=?utf-8?q?=?=", "g:a@b,;", "<@a,@b:c@d>", "a@[\\]", "\"\r\n \"@x", "a@b:25", strings.Repeat("(", 300), strings.Repeat("a.", 200) + "@x"} {
			f.Add(s)
		}

		return
	}

	for _, s := range repoFuzzSeeds {
		add([]byte(s))
	}

	in := corpusInputs(f)
	for _, b := range in {
		if len(b) < 5000 {
			add(b)
		}
	}

	add(gmime.DeepMultipart(40, false, true, false))
	add(gmime.DeepMultipart(40, true, false, true))
	add(gmime.DeepMessage(40, true))
	add(gmime.DeepMixed(30))
	add(gmime.DeepComment(200, true, "To", 1))
	add([]byte("Content-Type: multipart/mixed; boundary=\"\"\r\n\r\n--\r\n\r\n----\r\n"))
	add([]byte("Content-Type: message/rfc822\r\n\r\nContent-Type: message/rfc822\r\n\r\nContent-Type: multipart/x; boundary=a\r\n\r\n--a\r\n\r\n--a--"))
	add([]byte("Content-Type: text/plain; name*0=\"a\"; name*1=\"b\"; x*=utf-8''%e2%82%ac\r\nContent-Disposition: attachment;\r\n filename=\"\\\"\"\r\n\r\n"))
}

// FuzzParsedMessage: envelope / body / structure of arbitrary bytes (full oracle).
func FuzzParsedMessage(f *testing.F) {
	fuzzSeeds(f, false)

	f.Fuzz(func(t *testing.T, b []byte) {
		o := check(t, b, "fuzz-parsed-message")
		record(b, o, "fuzz-parsed-message", 0, false)
	})
}

// FuzzWalk: sections of a message whose header announces a multipart or an embedded message, so that the fuzzer's
// bytes reach the boundary scanner directly.
func FuzzWalk(f *testing.F) {
	fuzzSeeds(f, false)

	f.Fuzz(func(t *testing.T, b []byte) {
		for i, prefix := range []string{"", "Content-Type: multipart/mixed; boundary=b\r\n\r\n", "Content-Type: message/rfc822\n\n"} {
			m := append([]byte(prefix), b...)
			o := check(t, m, "fuzz-walk")

			if i == 0 {
				record(m, o, "fuzz-walk", 0, false)
			}
		}
	})
}

// FuzzAddressList: address header values.
func FuzzAddressList(f *testing.F) {
	fuzzSeeds(f, true)

	f.Fuzz(func(t *testing.T, s string) {
		if len(s) > 1<<16 {
			return
		}

		m := []byte("Date: Mon, 7 Feb 1994 21:52:25 -0800\r\nFrom: " + strings.NewReplacer("\r", " ", "\n", " ").Replace(s) + "\r\nTo: " + s + "\r\n\r\n")
		o := check(t, m, "fuzz-address-list")
		record(m, o, "fuzz-address-list", 0, false)
		checkAddressValue(t, s)
	})
}
