package c12

import (
	"fmt"
	"strconv"
	"strings"
)

// sx is one item of a parsed parenthesised IMAP list.
type sx struct {
	isList bool
	items  []*sx
	isNil  bool
	isNum  bool
	num    int64
	isStr  bool
	isLit  bool
	raw    string // quoted string: the bytes between the quotes; literal: the bytes
	off    int
}

// str returns the value of a string item: the writer under test quotes with strconv.Quote, so Go escapes are
// undone; if that fails, only \\ and \" are undone.
func (x *sx) str() string {
	if !x.isStr {
		return ""
	}

	if x.isLit {
		return x.raw
	}

	if s, err := strconv.Unquote(`"` + x.raw + `"`); err == nil {
		return s
	}

	var sb strings.Builder

	for i := 0; i < len(x.raw); i++ {
		if x.raw[i] == '\\' && i+1 < len(x.raw) {
			i++
		}

		sb.WriteByte(x.raw[i])
	}

	return sb.String()
}

func (x *sx) String() string {
	switch {
	case x == nil:
		return "<none>"
	case x.isList:
		parts := make([]string, len(x.items))
		for i, it := range x.items {
			parts[i] = it.String()
		}

		return "(" + strings.Join(parts, " ") + ")"
	case x.isNil:
		return "NIL"
	case x.isNum:
		return strconv.FormatInt(x.num, 10)
	default:
		return `"` + x.raw + `"`
	}
}

// listStats counts tolerated deviations from the strict RFC 3501 grammar (reported as classes, not violations).
type listStats struct {
	escapeOther  int // escapes other than \\ and \" inside a quoted string (strconv.Quote style)
	eightBit     int // bytes >= 0x80 inside a quoted string
	ctlInQuoted  int // control characters other than CR LF NUL inside a quoted string
	emptyList    int // "()" where the grammar wants NIL or a non-empty list
	literals     int
	longQuoted   int // quoted strings longer than 1024 bytes
	maxDepth     int
	itemsVisited int
}

// parseIMAPList is the tolerant tokenizer + parser: the whole text must be exactly one parenthesised list made of
// lists, quoted strings, literals, NIL and numbers, with balanced parentheses outside strings, closed strings, no
// raw CR / LF / NUL outside literals, every backslash followed by a character. It is iterative (no recursion) so that
// deeply nested output cannot exhaust the checker's own stack.
func parseIMAPList(s string) (*sx, *listStats, error) {
	st := &listStats{}
	fail := func(off int, format string, a ...any) (*sx, *listStats, error) {
		lo, hi := off-40, off+40
		if lo < 0 {
			lo = 0
		}

		if hi > len(s) {
			hi = len(s)
		}

		return nil, st, fmt.Errorf("malformed list at offset %d: %s (context %q)", off, fmt.Sprintf(format, a...), s[lo:hi])
	}

	if len(s) == 0 || s[0] != '(' {
		return fail(0, "does not start with '('")
	}

	var (
		stack []*sx
		root  *sx
		i     int
	)

	push := func(it *sx) {
		st.itemsVisited++

		if len(stack) > 0 {
			top := stack[len(stack)-1]
			top.items = append(top.items, it)
		}
	}

	for i < len(s) {
		if root != nil && len(stack) == 0 {
			return fail(i, "text after the end of the list")
		}

		c := s[i]

		switch {
		case c == '(':
			it := &sx{isList: true, off: i}

			if len(stack) == 0 {
				root = it
				st.itemsVisited++
			} else {
				push(it)
			}

			stack = append(stack, it)
			if len(stack) > st.maxDepth {
				st.maxDepth = len(stack)
			}

			i++
		case c == ')':
			if len(stack) == 0 {
				return fail(i, "unbalanced ')'")
			}

			if top := stack[len(stack)-1]; len(top.items) == 0 {
				st.emptyList++
			}

			stack = stack[:len(stack)-1]
			i++
		case c == ' ':
			i++
		case c == '"':
			j := i + 1

			for {
				if j >= len(s) {
					return fail(i, "quoted string not closed")
				}

				d := s[j]
				if d == '"' {
					break
				}

				switch {
				case d == '\r' || d == '\n' || d == 0:
					return fail(j, "raw CR/LF/NUL inside a quoted string")
				case d == '\\':
					if j+1 >= len(s) {
						return fail(j, "backslash at the end of the text")
					}

					if e := s[j+1]; e == '\r' || e == '\n' || e == 0 {
						return fail(j, "backslash followed by CR/LF/NUL")
					} else if e != '\\' && e != '"' {
						st.escapeOther++
					}

					j++
				case d >= 0x80:
					st.eightBit++
				case d < 0x20 || d == 0x7f:
					st.ctlInQuoted++
				}

				j++
			}

			if j-i-1 > 1024 {
				st.longQuoted++
			}

			if len(stack) == 0 {
				return fail(i, "string outside the list")
			}

			push(&sx{isStr: true, raw: s[i+1 : j], off: i})
			i = j + 1
		case c == '{':
			j := i + 1
			for j < len(s) && s[j] >= '0' && s[j] <= '9' {
				j++
			}

			if j == i+1 || j >= len(s) || s[j] != '}' || !strings.HasPrefix(s[j+1:], "\r\n") {
				return fail(i, "malformed literal header")
			}

			n, err := strconv.Atoi(s[i+1 : j])
			if err != nil || j+3+n > len(s) {
				return fail(i, "literal longer than the text")
			}

			if len(stack) == 0 {
				return fail(i, "literal outside the list")
			}

			st.literals++

			push(&sx{isStr: true, isLit: true, raw: s[j+3 : j+3+n], off: i})
			i = j + 3 + n
		case c == '\r' || c == '\n' || c == 0:
			return fail(i, "raw CR/LF/NUL outside a string")
		default:
			// atom: only NIL and numbers are legal here
			j := i
			for j < len(s) && s[j] != ' ' && s[j] != '(' && s[j] != ')' && s[j] != '"' && s[j] != '\r' && s[j] != '\n' && s[j] != 0 {
				j++
			}

			if len(stack) == 0 {
				return fail(i, "atom outside the list")
			}

			a := s[i:j]

			switch {
			case a == "NIL":
				push(&sx{isNil: true, off: i})
			default:
				n, err := strconv.ParseInt(a, 10, 64)
				if err != nil || n < 0 || (len(a) > 1 && a[0] == '0') || a[0] == '+' {
					return fail(i, "atom %q is neither NIL nor a number (unquoted string?)", truncate(a, 60))
				}

				push(&sx{isNum: true, num: n, off: i})
			}

			i = j
		}
	}

	if len(stack) != 0 {
		return fail(len(s), "%d list(s) not closed", len(stack))
	}

	return root, st, nil
}

func truncate(s string, n int) string {
	if len(s) > n {
		return s[:n] + "..."
	}

	return s
}
