package c12

import (
	"bytes"
	"fmt"
	"strings"
	"testing"
	"time"

	"pgregory.net/rapid"

	"verif/internal/ev"
	"verif/internal/kf"

	gmime "verif/internal/gen/mime"
)

// Depth classes. The MIME parser re-scans the rest of the message at every level (multiparts: 10 s at depth 20 000)
// and re-parses every embedded message at every level (message/rfc822: 1.2 s / 10 s / 54 s at depth 1 000 / 3 000 /
// 8 000), so these are capped to stay inside the max(60 s, c*n^2) budget; comment nesting is linear and is run at
// full size, because its failure mode is stack exhaustion.
func depthClasses(kind string) []int {
	switch kind {
	case "multipart":
		if ev.Thorough() {
			return []int{1000, 2500, 6000, 12000, 20000}
		}

		return []int{1000, 2000, 3000}
	case "message":
		if ev.Thorough() {
			return []int{1000, 1500, 2000} // 3000 takes 10 s unloaded: too close to the 60 s budget on a busy machine
		}

		return []int{300, 1000}
	case "mixed":
		if ev.Thorough() {
			return []int{2000, 8000, 20000}
		}

		return []int{1000, 3000}
	default: // comment
		if ev.Thorough() {
			return []int{1000, 100000, 1000000, 2000000, 6000000, 14000000}
		}

		return []int{1000, 30000, 1000000, 6000000}
	}
}

// commentDepthSafe is the largest comment nesting the generator uses while the stack-exhaustion finding is listed
// (about 270 bytes of stack per level: the 1 GB limit is hit near 3.7 million levels).
const commentDepthSafe = 2000000

func drawDeep(t *rapid.T) ([]byte, string, int) {
	kind := rapid.SampledFrom([]string{"multipart", "message", "mixed", "comment", "comment"}).Draw(t, "kind")
	classes := depthClasses(kind)
	depth := classes[rapid.IntRange(0, len(classes)-1).Draw(t, "depthclass")]

	// not exactly the class value: a drawn amount below it
	depth -= rapid.IntRange(0, depth/50).Draw(t, "jitter")

	switch kind {
	case "multipart":
		same, closed, lf := rapid.Bool().Draw(t, "same"), rapid.Bool().Draw(t, "closed"), rapid.Bool().Draw(t, "lf")
		return gmime.DeepMultipart(depth, same, closed, lf), fmt.Sprintf("deep-multipart(same=%v,closed=%v,lf=%v)", same, closed, lf), depth
	case "message":
		lf := rapid.Bool().Draw(t, "lf")
		return gmime.DeepMessage(depth, lf), fmt.Sprintf("deep-message(lf=%v)", lf), depth
	case "mixed":
		return gmime.DeepMixed(depth), "deep-mixed", depth
	default:
		if depth > commentDepthSafe && kf.Listed(kfCommentDepth) {
			ev.Excluded(1)

			depth = commentDepthSafe - rapid.IntRange(0, commentDepthSafe/2).Draw(t, "safedepth")
		}

		closed := rapid.Bool().Draw(t, "closed")
		style := rapid.IntRange(0, 3).Draw(t, "style")
		field := rapid.SampledFrom([]string{"To", "From", "Cc", "Bcc", "Sender", "Reply-To"}).Draw(t, "field")

		return gmime.DeepComment(depth, closed, field, style), fmt.Sprintf("deep-comment(%s,style=%d,closed=%v)", field, style, closed), depth
	}
}

// TestDeepNesting: nesting of multiparts, embedded messages and header comments to depth 10^3 .. 10^7, each input in a
// child process.
func TestDeepNesting(t *testing.T) {
	ev.Checks(12, 14)
	ev.ShrinkTime(5 * time.Second)

	defer ev.ShrinkTime(30 * time.Second)

	rapid.Check(t, func(t *rapid.T) {
		b, label, depth := drawDeep(t)
		v := checkInChild(t, b, label)

		levels := v.depth
		if depth > levels {
			levels = depth // comment nesting is depth of the header grammar, not of MIME sections
		}

		ls := []string{"deep", strings.SplitN(label, "(", 2)[0], "outcome:child-" + v.status}
		if levels >= 1000 {
			ls = append(ls, "levels:>=1000")
		}

		ev.Case(levels >= 1000 || v.hadErr, hash64(b), ls...)

		if v.elapsed.Seconds() > 5 {
			ev.Class("slow-input-over-5s", 1)
		}

		if ev.WantSample() {
			ev.Sample(map[string]any{"class": label, "depth": depth, "bytes": len(b), "child": truncate(v.detail, 200), "seconds": v.elapsed.Seconds()})
		} else {
			ev.Sample(nil)
		}
	})
}

// TestLargeInputs (thorough): linear-shaped inputs up to the 30 MiB literal limit, in a child process.
func TestLargeInputs(t *testing.T) {
	if !ev.Thorough() {
		t.Skip("thorough tier only")
	}

	ev.Checks(1, 5)

	const head = "From: a@b.c\r\nDate: Mon, 7 Feb 1994 21:52:25 -0800\r\n"

	rapid.Check(t, func(t *rapid.T) {
		kind := rapid.IntRange(0, 8).Draw(t, "largekind")
		size := []int{1 << 20, 8 << 20, 30<<20 - 1024}[rapid.IntRange(0, 2).Draw(t, "largesize")]
		seed := rapid.Uint64().Draw(t, "seed")

		var (
			b     bytes.Buffer
			label string
		)

		b.WriteString(head)

		switch kind {
		case 0:
			label = "large-text-body"
			b.WriteString("Content-Type: text/plain\r\n\r\n")
			b.Write(gmime.Expand(size, seed, int(seed%3)))
		case 1:
			label = "large-many-header-fields"
			for i := 0; b.Len() < size/4; i++ {
				fmt.Fprintf(&b, "X-H%d: v%d\r\n", i, i)
			}

			b.WriteString("\r\nbody\r\n")
		case 2:
			label = "large-folded-subject"
			b.WriteString("Subject: s")
			for b.Len() < size/4 {
				b.WriteString("\r\n continued line")
			}

			b.WriteString("\r\n\r\nbody\r\n")
		case 3:
			label = "large-flat-multipart"
			b.WriteString("Content-Type: multipart/mixed; boundary=b\r\n\r\n")
			for b.Len() < size/16 {
				b.WriteString("--b\r\n\r\nx\r\n")
			}

			b.WriteString("--b--\r\n")
		case 4:
			label = "large-one-line-subject"
			b.WriteString("Subject: ")
			b.Write(bytes.ReplaceAll(gmime.Expand(size/2, seed, 0), []byte("\r\n"), []byte("  ")))
			b.WriteString("\r\n\r\nbody\r\n")
		case 5:
			label = "large-address-list"
			b.WriteString("To: ")
			for i := 0; b.Len() < size/64; i++ {
				fmt.Fprintf(&b, "User %d <u%d@example.com>,\r\n ", i, i)
			}

			b.WriteString("last@example.com\r\n\r\nbody\r\n")
		case 6:
			label = "large-content-type-params"
			b.WriteString("Content-Type: text/plain")
			for i := 0; b.Len() < size/64; i++ {
				fmt.Fprintf(&b, ";\r\n p%d=\"v %d\"", i, i)
			}

			b.WriteString("\r\n\r\nbody\r\n")
		case 7:
			label = "large-multipart-big-parts"
			b.WriteString("Content-Type: multipart/mixed; boundary=b\r\n\r\n")
			for i := 0; i < 3; i++ {
				b.WriteString("--b\r\nContent-Type: application/octet-stream\r\n\r\n")
				b.Write(gmime.Expand(size/3, seed+uint64(i), i))
				b.WriteString("\r\n")
			}

			b.WriteString("--b--\r\n")
		default:
			label = "large-quoted-display-name"
			b.WriteString("To: \"")
			b.Write(bytes.ReplaceAll(gmime.Expand(size/8, seed, 0), []byte("\r\n"), []byte(" ")))
			b.WriteString("\" <u@example.com>\r\n\r\nbody\r\n")
		}

		in := b.Bytes()
		v := checkInChild(t, in, label)

		ev.Case(v.depth >= 2 || v.hadErr, hash64(in), "large", label, "outcome:child-"+v.status)

		if v.elapsed.Seconds() > 5 {
			ev.Class("slow-input-over-5s", 1)
		}

		ev.Sample(nil)
	})
}
