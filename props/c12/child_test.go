package c12

import (
	"bufio"
	"bytes"
	"context"
	"fmt"
	"os"
	"os/exec"
	"path/filepath"
	"runtime/debug"
	"strings"
	"testing"
	"time"

	"github.com/ProtonMail/gluon/rfc5322"
	"github.com/ProtonMail/gluon/rfc822"

	"verif/internal/kf"

	gmime "verif/internal/gen/mime"
)

// Deep inputs can kill the process in a way recover() cannot catch (stack exhaustion is a fatal error). They are
// parsed in a child: this test binary re-executed with -test.run=^TestChildParse$. The child appends
// "START <hash> <file>" to a journal before it parses an input and "DONE <hash> <verdict>" afterwards, so a crash is
// attributed to its input and becomes an ordinary test failure of the parent.
const (
	childEnvList    = "C12_CHILD_LIST"    // file with one input path per line
	childEnvJournal = "C12_CHILD_JOURNAL" // journal path
)

func journalAppend(path, line string) {
	f, err := os.OpenFile(path, os.O_APPEND|os.O_CREATE|os.O_WRONLY|os.O_SYNC, 0o644)
	if err != nil {
		fmt.Fprintf(os.Stderr, "journal: %v\n", err)
		os.Exit(4)
	}

	_, _ = f.WriteString(line + "\n")
	_ = f.Close()
}

// TestChildParse is the child side. Without the environment it does nothing.
func TestChildParse(t *testing.T) {
	list, journal := os.Getenv(childEnvList), os.Getenv(childEnvJournal)
	if list == "" || journal == "" {
		t.Skip("child mode only")
	}

	names, err := os.ReadFile(list)
	if err != nil {
		t.Fatalf("child: %v", err)
	}

	for _, name := range strings.Fields(string(names)) {
		b, err := os.ReadFile(name)
		if err != nil {
			t.Fatalf("child: %v", err)
		}

		h := hashBytes(b)
		journalAppend(journal, "START "+h+" "+name)

		verdict := func() (v string) {
			defer func() {
				if p := recover(); p != nil {
					v = fmt.Sprintf("panic %v | %s", p, strings.ReplaceAll(truncate(string(debug.Stack()), 3000), "\n", " | "))
				}
			}()

			o := analyse(b)
			if len(o.violations) > 0 {
				return "violation " + strings.ReplaceAll(strings.Join(o.violations, " ; "), "\n", " | ")
			}

			return fmt.Sprintf("ok sections=%d depth=%d parseErr=%v walkErr=%v addrErrs=%d", o.sections, o.depth, o.parseErr != nil, o.walkErr != nil, o.addrErrs)
		}()

		journalAppend(journal, "DONE "+h+" "+verdict)
	}
}

type childVerdict struct {
	status  string // ok | violation | panic | crash | timeout | not-run
	detail  string
	depth   int
	elapsed time.Duration
	hadErr  bool
}

// runChild parses the inputs in one child process with a total time budget.
func runChild(t failer, inputs [][]byte, d time.Duration) []childVerdict {
	dir, err := os.MkdirTemp("", "c12-child-")
	if err != nil {
		t.Fatalf("VERIF-INCONCLUSIVE: %v", err)
	}

	defer os.RemoveAll(dir)

	var list strings.Builder

	hashes := make([]string, len(inputs))

	for i, b := range inputs {
		p := filepath.Join(dir, fmt.Sprintf("in-%d", i))
		if err := os.WriteFile(p, b, 0o644); err != nil {
			t.Fatalf("VERIF-INCONCLUSIVE: %v", err)
		}

		list.WriteString(p + "\n")

		hashes[i] = hashBytes(b)
	}

	listPath, journal := filepath.Join(dir, "list"), filepath.Join(dir, "journal")
	if err := os.WriteFile(listPath, []byte(list.String()), 0o644); err != nil {
		t.Fatalf("VERIF-INCONCLUSIVE: %v", err)
	}

	ctx, cancel := context.WithTimeout(context.Background(), d)
	defer cancel()

	cmd := exec.CommandContext(ctx, os.Args[0], "-test.run=^TestChildParse$", "-test.count=1", "-test.timeout=0")
	cmd.Env = append(os.Environ(), childEnvList+"="+listPath, childEnvJournal+"="+journal, "VERIF_PARTS_DIR=")

	var out bytes.Buffer

	cmd.Stdout, cmd.Stderr = &out, &out
	start := time.Now()
	runErr := cmd.Run()
	elapsed := time.Since(start)

	res := make([]childVerdict, len(inputs))
	for i := range res {
		res[i] = childVerdict{status: "not-run", elapsed: elapsed}
	}

	started := map[string]bool{}
	done := map[string]string{}

	if jf, err := os.Open(journal); err == nil {
		sc := bufio.NewScanner(jf)
		sc.Buffer(make([]byte, 1<<20), 1<<24)

		for sc.Scan() {
			f := strings.SplitN(sc.Text(), " ", 3)
			if len(f) < 2 {
				continue
			}

			switch f[0] {
			case "START":
				started[f[1]] = true
			case "DONE":
				if len(f) == 3 {
					done[f[1]] = f[2]
				}
			}
		}

		jf.Close()
	}

	for i, h := range hashes {
		switch v, ok := done[h]; {
		case ok && strings.HasPrefix(v, "ok"):
			res[i].status, res[i].detail = "ok", v
			fmt.Sscanf(v[strings.Index(v, "depth="):], "depth=%d", &res[i].depth)
			res[i].hadErr = strings.Contains(v, "Err=true") || !strings.Contains(v, "addrErrs=0")
		case ok && strings.HasPrefix(v, "violation"):
			res[i].status, res[i].detail = "violation", v
		case ok:
			res[i].status, res[i].detail = "panic", v
		case started[h] && ctx.Err() != nil:
			res[i].status, res[i].detail = "timeout", fmt.Sprintf("killed after %v", d)
		case started[h]:
			res[i].status = "crash"
			res[i].detail = fmt.Sprintf("child died (%v) while parsing this input; output:\n%s", runErr, crashSummary(out.String()))
		}
	}

	return res
}

// crashSummary keeps the lines that say why the runtime gave up.
func crashSummary(out string) string {
	var keep []string

	lines := strings.Split(out, "\n")
	for i, l := range lines {
		if strings.HasPrefix(l, "fatal error:") || strings.HasPrefix(l, "runtime:") || strings.HasPrefix(l, "panic:") || strings.Contains(l, "goroutine stack exceeds") {
			keep = append(keep, l)
		}

		if strings.HasPrefix(l, "goroutine ") && strings.Contains(l, "[running]") && i+12 < len(lines) {
			keep = append(keep, lines[i:i+12]...)
			break
		}
	}

	if len(keep) == 0 {
		return truncate(out, 3000)
	}

	// not at line start, so that the driver does not mistake the quoted child output for a crash of this binary
	return "  | " + strings.Join(keep, "\n  | ")
}

// linearBudget is the time budget of inputs whose cost is linear in their size (comment nesting: the header grammar
// never re-scans), 60 s + 15 s per MB.
func linearBudget(n int) time.Duration {
	return 60*time.Second + time.Duration(n>>20)*15*time.Second
}

// checkInChild runs one input in its own child, applies the re-check rule on a timeout and fails the test on a
// crash / panic / violation, saving the input.
func checkInChild(t failer, b []byte, label string) childVerdict {
	d := budget(len(b))
	if strings.HasPrefix(label, "deep-comment") {
		d = linearBudget(len(b))
	}
	v := runChild(t, [][]byte{b}, d)[0]

	if v.status == "timeout" {
		p := saveFound(b, label+"-slow")
		v2 := runChild(t, [][]byte{b}, 2*d)[0]

		if v2.status == "timeout" {
			abortRun(fmt.Sprintf("VERIF-VIOLATION non-termination: input (%s, %d bytes) exceeded %v and then %v in a child process; saved as %s", label, len(b), d, 2*d, p))
		}

		t.Fatalf("VERIF-INCONCLUSIVE: input (%s, %d bytes) exceeded the time budget %v once, %s in %v on re-check; saved as %s", label, len(b), d, v2.status, v2.elapsed, p)
	}

	switch v.status {
	case "ok":
	case "not-run":
		t.Fatalf("VERIF-INCONCLUSIVE: child process did not reach the input (%s): %s", label, v.detail)
	default:
		p := saveFound(b, label+"-"+v.status)
		t.Fatalf("VERIF-VIOLATION %s in a child process on input class %s (%d bytes, saved as %s):\n%s\ninput: %s", v.status, label, len(b), p, v.detail, escaped(b))
	}

	return v
}

// checkAddressValue calls the address parser directly (no message around it).
func checkAddressValue(t failer, s string) {
	t.Helper()

	func() {
		defer func() {
			if p := recover(); p != nil {
				saveFound([]byte(s), "address-panic")
				t.Fatalf("VERIF-VIOLATION panic in rfc5322.ParseAddressList: %v\nvalue: %q\n%s", p, truncate(s, 4000), debug.Stack())
			}
		}()

		addrs, err := rfc5322.ParseAddressList(s)
		if err == nil {
			for i, a := range addrs {
				if a == nil {
					t.Fatalf("VERIF-VIOLATION ParseAddressList(%q) returned a nil address at %d", truncate(s, 4000), i)
				}
			}
		}

		_, _ = rfc5322.ParseAddress(s)
	}()
}

// compareParts checks, for a well-formed tree, that Part(path) addresses exactly the generated part for every part
// of a multipart (directly or inside embedded messages), that paths just outside the tree are refused, and that
// Walk reaches exactly the parts of the tree.
func compareParts(tree *gmime.Tree) (diffs []string) {
	defer func() {
		if p := recover(); p != nil {
			diffs = append(diffs, fmt.Sprintf("panic in Part/Walk: %v\n%s", p, debug.Stack()))
		}
	}()

	root := rfc822.Parse(tree.Bytes)
	paths := tree.Paths()

	if kf.Listed(kfEmbeddedMultipart) {
		// Known finding: a message/rfc822 entity takes over the parts of the multipart message embedded in it
		// (through any chain of embedded messages), so its parts are numbered p.1..p.n even where RFC 3501 numbers
		// them p.1.1..p.1.n (root of type message/rfc822; message inside message). While the finding is listed the
		// paths are enumerated in that shape.
		paths = nil

		var rec func(n *gmime.Node, prefix []int)

		rec = func(n *gmime.Node, prefix []int) {
			for n.Kind == gmime.Message {
				n = n.Embedded
			}

			if n.Kind != gmime.Multipart {
				return
			}

			for i, c := range n.Children {
				p := append(append([]int{}, prefix...), i+1)
				paths = append(paths, gmime.PathNode{Path: p, Node: c})
				rec(c, p)
			}
		}

		rec(tree.Root, nil)
	}

	for _, pn := range paths {
		sec, err := root.Part(pn.Path...)
		if err != nil || sec == nil {
			diffs = append(diffs, fmt.Sprintf("Part(%s) fails (%v) on a part that exists", gmime.PathString(pn.Path), err))
			continue
		}

		if !inside(sec.Literal(), tree.Bytes) {
			diffs = append(diffs, fmt.Sprintf("Part(%s) lies outside the message", gmime.PathString(pn.Path)))
			continue
		}

		if pn.Node.Parent != nil && pn.Node.Parent.Kind == gmime.Multipart {
			start := pn.Node.Start
			if len(sec.Literal()) > 0 {
				start = offsetIn(sec.Literal(), tree.Bytes)
			}

			if start != pn.Node.Start || len(sec.Literal()) != pn.Node.End-pn.Node.Start || len(sec.Header()) != len(pn.Node.Header) {
				diffs = append(diffs, fmt.Sprintf("Part(%s) is [%d,%d) with a %d-byte header, the generated part is [%d,%d) with a %d-byte header",
					gmime.PathString(pn.Path), start, start+len(sec.Literal()), len(sec.Header()), pn.Node.Start, pn.Node.End, len(pn.Node.Header)))
			}

			// one past the last sibling must not exist
			beyond := append(append([]int{}, pn.Path[:len(pn.Path)-1]...), len(pn.Node.Parent.Children)+1)
			if s2, err := root.Part(beyond...); err == nil && s2 != nil {
				diffs = append(diffs, fmt.Sprintf("Part(%s) exists, the multipart has %d parts", gmime.PathString(beyond), len(pn.Node.Parent.Children)))
			}
		}
	}

	return diffs
}
