package c12

import (
	"crypto/sha256"
	"encoding/hex"
	"fmt"
	"os"
	"path/filepath"
	"runtime/debug"
	"strconv"
	"strings"
	"time"
	"unsafe"

	"github.com/ProtonMail/gluon/imap"
	"github.com/ProtonMail/gluon/rfc5322"
	"github.com/ProtonMail/gluon/rfc822"

	"verif/internal/ev"
)

// outcome is what the oracle saw on one input.
type outcome struct {
	violations []string // property violations (empty = the property held on this input)
	parseErr   error    // error of imap.NewParsedMessage
	walkErr    error    // first error of Children() during the section walk
	addrErrs   int      // address header values that rfc5322.ParseAddressList rejected
	pm         *imap.ParsedMessage
	body       *sx // parsed BODY
	structure  *sx // parsed BODYSTRUCTURE
	envelope   *sx // parsed ENVELOPE
	sections   int
	depth      int // MIME levels seen by the section walk (1 = no children)
	classes    map[string]int
}

func (o *outcome) violate(format string, a ...any) {
	if len(o.violations) < 8 {
		o.violations = append(o.violations, fmt.Sprintf(format, a...))
	}
}

func (o *outcome) parserReportedError() bool {
	return o.parseErr != nil || o.walkErr != nil || o.addrErrs > 0
}

// inside tells whether sub is a sub-slice of whole (pointer arithmetic on the slice data).
func inside(sub, whole []byte) bool {
	if len(sub) == 0 {
		// no bytes reported. (Not compared by address: Go keeps the base pointer of the operand for s[cap:cap].)
		return true
	}

	if len(whole) == 0 {
		return false
	}

	ws := uintptr(unsafe.Pointer(unsafe.SliceData(whole)))
	ss := uintptr(unsafe.Pointer(unsafe.SliceData(sub)))

	return ss >= ws && ss+uintptr(len(sub)) <= ws+uintptr(len(whole))
}

func offsetIn(sub, whole []byte) int {
	return int(uintptr(unsafe.Pointer(unsafe.SliceData(sub))) - uintptr(unsafe.Pointer(unsafe.SliceData(whole))))
}

const maxPartProbes = 120

// analyse is the oracle proper. It runs in the calling goroutine and does not recover: callers wrap it.
func analyse(b []byte) *outcome {
	o := &outcome{classes: map[string]int{}}

	// 1. envelope, body, structure
	pm, err := imap.NewParsedMessage(b)
	o.parseErr, o.pm = err, pm

	if err == nil {
		if pm == nil {
			o.violate("NewParsedMessage returned nil, nil")
			return o
		}

		for _, part := range []struct {
			name string
			text string
			dst  **sx
		}{{"ENVELOPE", pm.Envelope, &o.envelope}, {"BODY", pm.Body, &o.body}, {"BODYSTRUCTURE", pm.Structure, &o.structure}} {
			x, st, err := parseIMAPList(part.text)
			if err != nil {
				o.violate("%s is not a well-formed parenthesised list: %v", part.name, err)
				continue
			}

			*part.dst = x

			for k, v := range map[string]int{"list-escape-other-than-bs-dq": st.escapeOther, "list-8bit-in-quoted": st.eightBit,
				"list-ctl-in-quoted": st.ctlInQuoted, "list-empty-list": st.emptyList, "list-literal": st.literals, "list-quoted-over-1024": st.longQuoted} {
				if v > 0 {
					o.classes[k] += v
				}
			}
		}

		if o.envelope != nil && len(o.envelope.items) != 10 {
			o.violate("ENVELOPE has %d fields, want 10: %s", len(o.envelope.items), truncate(pm.Envelope, 300))
		}

		if o.body != nil && o.structure != nil {
			if err := sameBasicFields(o.body, o.structure, 0); err != nil {
				o.violate("BODY is not BODYSTRUCTURE without the extension fields: %v\nBODY          %s\nBODYSTRUCTURE %s", err, truncate(pm.Body, 400), truncate(pm.Structure, 400))
			}
		}
	}

	// 2. sections: Walk / Children / Part
	root := rfc822.Parse(b)
	if root == nil {
		o.violate("rfc822.Parse returned nil")
		return o
	}

	if lit := root.Literal(); len(lit) != len(b) || (len(b) > 0 && !inside(lit, b)) {
		o.violate("root section is [%d bytes], message is %d bytes", len(lit), len(b))
	}

	type frame struct {
		sec    *rfc822.Section
		parent *rfc822.Section
		path   []int
		level  int
	}

	probes := 0
	stack := []frame{{sec: root, level: 1}}

	for len(stack) > 0 {
		f := stack[len(stack)-1]
		stack = stack[:len(stack)-1]
		o.sections++

		if f.level > o.depth {
			o.depth = f.level
		}

		lit, hdr, body := f.sec.Literal(), f.sec.Header(), f.sec.Body()

		switch {
		case len(hdr)+len(body) != len(lit):
			o.violate("section %v: header %d + body %d != literal %d", f.path, len(hdr), len(body), len(lit))
		case len(b) > 0 && (!inside(lit, b) || !inside(hdr, lit) || !inside(body, lit)):
			o.violate("section %v lies outside the message", f.path)
		case (len(hdr) > 0 && offsetIn(hdr, lit) != 0) || (len(body) > 0 && offsetIn(body, lit) != len(hdr)):
			// (zero-length slices are not compared by address: Go keeps the base pointer for s[len:len])
			o.violate("section %v: header/body are not prefix/suffix of the part", f.path)
		}

		if f.parent != nil && len(b) > 0 && !inside(lit, f.parent.Body()) {
			o.violate("section %v is not inside the body of its parent %v", f.path, f.path[:len(f.path)-1])
		}

		children, err := f.sec.Children()
		if err != nil {
			if o.walkErr == nil {
				o.walkErr = err
			}

			continue
		}

		// siblings: in order, not overlapping
		prevEnd := -1

		for i, c := range children {
			if c == nil {
				o.violate("section %v: child %d is nil", f.path, i+1)
				continue
			}

			cl := c.Literal()
			if len(cl) > 0 && inside(cl, b) {
				start := offsetIn(cl, b)
				if start < prevEnd {
					o.violate("section %v: child %d starts at %d before the end %d of its elder sibling", f.path, i+1, start, prevEnd)
				}

				prevEnd = start + len(cl)
			}
		}

		// Part() on this section's path, and just outside it
		if probes < maxPartProbes {
			probes++

			if p, err := root.Part(f.path...); err != nil || p == nil {
				o.violate("Part(%v) fails (%v) for a section reached through Children()", f.path, err)
			} else if pl := p.Literal(); len(pl) != len(lit) || (len(lit) > 0 && offsetIn(pl, b) != offsetIn(lit, b)) {
				if len(pl) == 0 || len(lit) == 0 {
					pl, lit = b[:0], b[:0] // offsets of empty slices are meaningless; print 0
				}

				// a childless section answers its own path and path+[1]; everything else must be the same range
				o.violate("Part(%v) is [%d,+%d), the walk reached [%d,+%d)", f.path, offsetIn(pl, b), len(pl), offsetIn(lit, b), len(lit))
			}

			for _, extra := range [][]int{{len(children) + 1}, {0}, {-1}, {len(children) + 2}, {1, 1, 1}, {len(children), len(children) + 1}} {
				p, err := root.Part(append(append([]int{}, f.path...), extra...)...)
				if err == nil && p != nil && len(b) > 0 && !inside(p.Literal(), b) {
					o.violate("Part(%v+%v) lies outside the message", f.path, extra)
				}

				if err == nil && p == nil {
					o.violate("Part(%v+%v) returned nil, nil", f.path, extra)
				}
			}

			if got := f.sec.Identifier(); fmt.Sprint(got) != fmt.Sprint(append([]int{}, f.path...)) && len(f.path) > 0 {
				o.classes["identifier-differs-from-path"]++
			}
		}

		for i := len(children) - 1; i >= 0; i-- {
			if children[i] != nil {
				stack = append(stack, frame{sec: children[i], parent: f.sec, path: append(append([]int{}, f.path...), i+1), level: f.level + 1})
			}
		}
	}

	// Walk itself must terminate and visit the same number of sections
	walked := 0
	werr := root.Walk(func(*rfc822.Section) error { walked++; return nil })

	if werr == nil && o.walkErr == nil && walked != o.sections {
		o.violate("Walk visited %d sections, Children() reaches %d", walked, o.sections)
	}

	if werr != nil && o.walkErr == nil {
		o.walkErr = werr
	}

	// 3. address headers of the root header, merged and raw
	if h, err := root.ParseHeader(); err == nil && h != nil {
		for _, name := range []string{"From", "Sender", "Reply-To", "To", "Cc", "Bcc"} {
			if v, ok := h.GetChecked(name); ok {
				if _, err := rfc5322.ParseAddressList(v); err != nil {
					o.addrErrs++
				}

				if raw := h.GetRaw(name); len(raw) != len(v) {
					_, _ = rfc5322.ParseAddressList(string(raw))
				}
			}
		}
	} else if err != nil && o.walkErr == nil {
		o.walkErr = err
	}

	return o
}

// sameBasicFields checks that body is structure without the extension data (RFC 3501: BODY is the non-extensible
// form of BODYSTRUCTURE).
func sameBasicFields(body, structure *sx, depth int) error {
	type pair struct{ b, s *sx }

	work := []pair{{body, structure}}

	for len(work) > 0 {
		p := work[len(work)-1]
		work = work[:len(work)-1]

		if !p.b.isList || !p.s.isList {
			return fmt.Errorf("body part is not a list (BODY offset %d, BODYSTRUCTURE offset %d)", p.b.off, p.s.off)
		}

		if len(p.b.items) == 0 || len(p.s.items) == 0 {
			return fmt.Errorf("empty body part (BODY offset %d)", p.b.off)
		}

		if p.b.items[0].isList != p.s.items[0].isList {
			return fmt.Errorf("multipart in one, single part in the other (BODY offset %d)", p.b.off)
		}

		n := 0

		if p.b.items[0].isList {
			for n < len(p.b.items) && p.b.items[n].isList {
				n++
			}

			if len(p.b.items) != n+1 {
				return fmt.Errorf("multipart BODY has %d items after %d parts, want the subtype only (offset %d)", len(p.b.items)-n, n, p.b.off)
			}

			if len(p.s.items) < n+1 || (len(p.s.items) > n && p.s.items[n].isList) {
				return fmt.Errorf("multipart has %d parts in BODY, another number in BODYSTRUCTURE (offset %d)", n, p.s.off)
			}

			if !p.b.items[n].isStr && !p.b.items[n].isNil {
				return fmt.Errorf("multipart subtype is not a string (offset %d)", p.b.items[n].off)
			}

			for i := 0; i < n; i++ {
				work = append(work, pair{p.b.items[i], p.s.items[i]})
			}

			if p.b.items[n].String() != p.s.items[n].String() {
				return fmt.Errorf("multipart subtype differs: %s vs %s", p.b.items[n], p.s.items[n])
			}

			continue
		}

		n = 7
		typ, sub := strings.ToLower(p.b.items[0].str()), ""

		if len(p.b.items) > 1 {
			sub = strings.ToLower(p.b.items[1].str())
		}

		isMsg := typ == "message" && sub == "rfc822"

		switch {
		case isMsg:
			n = 10
		case typ == "text":
			n = 8
		}

		if len(p.b.items) != n {
			return fmt.Errorf("single-part BODY %s/%s has %d fields, want %d (offset %d)", typ, sub, len(p.b.items), n, p.b.off)
		}

		if len(p.s.items) < n {
			return fmt.Errorf("single-part BODYSTRUCTURE has %d fields, fewer than BODY's %d (offset %d)", len(p.s.items), n, p.s.off)
		}

		for i := 0; i < n; i++ {
			if isMsg && i == 8 {
				work = append(work, pair{p.b.items[i], p.s.items[i]})
				continue
			}

			if p.b.items[i].String() != p.s.items[i].String() {
				return fmt.Errorf("field %d differs: %s vs %s", i+1, truncate(p.b.items[i].String(), 100), truncate(p.s.items[i].String(), 100))
			}
		}

		for _, i := range []int{2} {
			if it := p.b.items[i]; !it.isNil && !it.isList {
				return fmt.Errorf("parameter field is %s (offset %d)", it, it.off)
			}
		}

		if it := p.b.items[6]; !it.isNum {
			return fmt.Errorf("size field is %s, not a number (offset %d)", it, it.off)
		}

		if n > 7 && !p.b.items[n-1].isNum {
			return fmt.Errorf("line-count field is %s, not a number (offset %d)", p.b.items[n-1], p.b.items[n-1].off)
		}
	}

	return nil
}

// ---- guarded execution: recover + watchdog + re-check ------------------------------------------------------------

// budget is the time allowed for one input: max(60 s, c*n^2). c is 20x the measured curve of DESIGN.md (1.9 s at
// depth 8000, about 480 kB).
func budget(n int) time.Duration {
	d := time.Duration(1.65e-10 * float64(n) * float64(n) * float64(time.Second))
	if d < 60*time.Second {
		d = 60 * time.Second
	}

	// small inputs parse in well under a millisecond: 20 s is already four orders of magnitude of slack
	if n < 1<<16 {
		d = 20 * time.Second
	}

	return d
}

type guardResult struct {
	out      *outcome
	panicked any
	stack    string
	timedOut bool
	elapsed  time.Duration
}

func runGuarded(b []byte, d time.Duration) guardResult {
	done := make(chan guardResult, 1)
	start := time.Now()

	go func() {
		var r guardResult

		defer func() {
			if p := recover(); p != nil {
				r.panicked, r.stack = p, string(debug.Stack())
			}

			r.elapsed = time.Since(start)
			done <- r
		}()

		r.out = analyse(b)
	}()

	timer := time.NewTimer(d)
	defer timer.Stop()

	select {
	case r := <-done:
		return r
	case <-timer.C:
		return guardResult{timedOut: true, elapsed: time.Since(start)}
	}
}

// abortRun ends the test binary at once with the given verdict. Used when non-termination has been confirmed: the
// goroutines that still spin in the parser cannot be stopped, and every shrinking attempt of rapid would cost the
// full time budget again, so the failure would only be reported after the driver's deadline. The saved input is the
// reproduction. (A panic in a goroutine of its own is not recovered by rapid.)
func abortRun(msg string) {
	fmt.Fprintln(os.Stderr, msg)

	go func() { panic(msg) }()

	select {}
}

type failer interface {
	Helper()
	Fatalf(format string, args ...any)
	Logf(format string, args ...any)
}

func hashBytes(b []byte) string {
	h := sha256.Sum256(b)
	return hex.EncodeToString(h[:8])
}

// saveFound stores an input under replays/c12/found/ in the corpus format of the native fuzz target
// FuzzParsedMessage, so that `./check C12 --replay <file>` runs the whole oracle on it again.
func saveFound(b []byte, label string) string {
	p := filepath.Join(foundDir(), fmt.Sprintf("FuzzParsedMessage-%s-%s", sanitize(label), hashBytes(b)))
	_ = os.WriteFile(p, []byte("go test fuzz v1\n[]byte("+strconv.Quote(string(b))+")\n"), 0o644)

	return p
}

func sanitize(s string) string {
	return strings.Map(func(r rune) rune {
		if r >= 'a' && r <= 'z' || r >= 'A' && r <= 'Z' || r >= '0' && r <= '9' || r == '-' {
			return r
		}

		return '_'
	}, s)
}

func escaped(b []byte) string {
	if len(b) > 6000 {
		return fmt.Sprintf("%q ... [%d bytes in total] ... %q", b[:3000], len(b), b[len(b)-1500:])
	}

	return fmt.Sprintf("%q", b)
}

// check runs the oracle on one input with recover and watchdog and fails the test on a violation. The input is saved
// under replays/c12/found/ and printed escaped.
func check(t failer, b []byte, label string) *outcome {
	t.Helper()

	r := runGuarded(b, budget(len(b)))

	if r.timedOut {
		// re-check rule (DESIGN.md 1.6): run again with a doubled budget
		p := saveFound(b, label+"-slow")
		r2 := runGuarded(b, 2*budget(len(b)))

		if r2.timedOut {
			abortRun(fmt.Sprintf("VERIF-VIOLATION non-termination: input (%s, %d bytes) exceeded %v and then %v; saved as %s\ninput: %s",
				label, len(b), budget(len(b)), 2*budget(len(b)), p, escaped(b)))
		}

		t.Fatalf("VERIF-INCONCLUSIVE: input (%s, %d bytes) exceeded the time budget %v once, finished in %v on re-check; saved as %s",
			label, len(b), budget(len(b)), r2.elapsed, p)
	}

	if r.panicked != nil {
		p := saveFound(b, label+"-panic")
		t.Fatalf("VERIF-VIOLATION panic (the production panic handler does not recover: process crash): %v\ninput class %s, %d bytes, saved as %s\ninput: %s\n%s",
			r.panicked, label, len(b), p, escaped(b), r.stack)
	}

	for k, v := range r.out.classes {
		ev.Class(k, v)
	}

	if len(r.out.violations) > 0 {
		p := saveFound(b, label)
		t.Fatalf("VERIF-VIOLATION %s\ninput class %s, %d bytes, saved as %s\ninput: %s", strings.Join(r.out.violations, "\n"), label, len(b), p, escaped(b))
	}

	if r.elapsed > 5*time.Second {
		ev.Class("slow-input-over-5s", 1)
	}

	return r.out
}
