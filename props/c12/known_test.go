package c12

import (
	"strings"
	"testing"

	"github.com/ProtonMail/gluon/imap"

	"verif/internal/ev"
	"verif/internal/kf"

	gmime "verif/internal/gen/mime"
)

const (
	kfGroupMembers = "C12-group-members-dropped"
	kfDelimPadding = "C12-delimiter-transport-padding"
	kfCTComment    = "C12-content-type-comment"
)

// knownOutcome implements the rule of HACKING.md for a deterministic regression of a genuine defect.
func knownOutcome(t *testing.T, id string, reproduced bool, detail string) {
	t.Helper()

	switch {
	case !reproduced:
		// fixed (or not reproducible here): nothing to say
	case kf.Report(id):
		t.Logf("known finding %s reproduced: %s", id, detail)
	default:
		t.Fatalf("VERIF-VIOLATION (%s, not listed in known_findings.json): %s", id, detail)
	}
}

func onlyShard0(t *testing.T) {
	if sh, _ := ev.Shard(); sh != 0 {
		t.Skip("deterministic regression: shard 0 only")
	}
}

// TestKnown_C12_embedded_multipart: RFC 3501 7.4.2 wants ("message" "rfc822" params id desc enc size envelope
// body lines) for every message/rfc822 part. When the embedded message is a multipart, gluon reports the part as a
// multipart whose subtype is "rfc822": type, size, envelope and line count are lost.
func TestKnown_C12_embedded_multipart(t *testing.T) {
	onlyShard0(t)

	const msg = "From: a@b.c\r\nDate: Mon, 7 Feb 1994 21:52:25 -0800\r\nContent-Type: message/rfc822\r\n\r\n" +
		"Subject: inner\r\nContent-Type: multipart/mixed; boundary=b\r\n\r\n--b\r\n\r\nx\r\n--b--\r\n"

	pm, err := imap.NewParsedMessage([]byte(msg))
	if err != nil {
		t.Fatalf("VERIF-VIOLATION NewParsedMessage fails on the regression input: %v", err)
	}

	x, _, err := parseIMAPList(pm.Body)
	if err != nil {
		t.Fatalf("VERIF-VIOLATION %v", err)
	}

	// correct: ("message" "rfc822" NIL NIL NIL NIL 72 (envelope) (("text" "plain" ...) "mixed") 7)
	correct := len(x.items) == 10 && strings.EqualFold(x.items[0].str(), "message") && strings.EqualFold(x.items[1].str(), "rfc822") && x.items[8].isList
	knownOutcome(t, kfEmbeddedMultipart, !correct, "BODY of a message/rfc822 part embedding a multipart is "+pm.Body)
}

// TestKnown_C12_group_members: inside a group, a member that follows ", " (comma + white space) or that starts with a
// quoted string is not parsed; it and every later address of the header are dropped without an error.
func TestObserved_C12_group_members(t *testing.T) {
	onlyShard0(t)

	var broken []string

	for _, to := range []string{"Team: m1@x.y, m2@x.y;, after@x.y", "Team: \"Doe, John\" <m1@x.y>;, after@x.y"} {
		pm, err := imap.NewParsedMessage([]byte("From: a@b.c\r\nDate: Mon, 7 Feb 1994 21:52:25 -0800\r\nTo: " + to + "\r\n\r\nx\r\n"))
		if err != nil {
			t.Fatalf("VERIF-VIOLATION NewParsedMessage fails on the regression input: %v", err)
		}

		x, _, err := parseIMAPList(pm.Envelope)
		if err != nil {
			t.Fatalf("VERIF-VIOLATION %v", err)
		}

		want := 2 + strings.Count(to, "m2")
		if got := len(x.items[5].items); got != want {
			broken = append(broken, "ENVELOPE of 'To: "+to+"' has "+x.items[5].String()+" as recipients")
		}
	}

	// ENVELOPE content is outside the statement of C12 (see envelopeContentNotJudged): observed, not judged.
	if len(broken) > 0 {
		t.Logf("not judged: %s", strings.Join(broken, "; "))
		ev.Class("observed:group-members-dropped(not judged)", 1)
	}
}

// TestKnown_C12_delimiter_padding: RFC 2046 5.1.1 lets transports add white space behind a delimiter line and obliges
// receivers to cope; gluon's scanner wants the line break immediately behind the boundary, so the parts are lost.
func TestKnown_C12_delimiter_padding(t *testing.T) {
	onlyShard0(t)

	const msg = "From: a@b.c\r\nDate: Mon, 7 Feb 1994 21:52:25 -0800\r\nContent-Type: multipart/mixed; boundary=b\r\n\r\n" +
		"--b \r\nContent-Type: text/plain\r\n\r\none\r\n--b\t\r\n\r\ntwo\r\n--b-- \r\n"

	pm, err := imap.NewParsedMessage([]byte(msg))
	if err != nil {
		t.Fatalf("VERIF-VIOLATION NewParsedMessage fails on the regression input: %v", err)
	}

	x, _, err := parseIMAPList(pm.Body)
	if err != nil {
		t.Fatalf("VERIF-VIOLATION %v", err)
	}

	correct := len(x.items) == 3 && x.items[0].isList && x.items[1].isList
	knownOutcome(t, kfDelimPadding, !correct, "BODY of a two-part multipart whose delimiter lines carry transport padding is "+pm.Body)
}

// TestKnown_C12_content_type_comment: RFC 2045 5.1 shows "Content-type: text/plain; charset=us-ascii (Plain text)";
// gluon hands the value to mime.ParseMediaType, which knows no comments, and reports NIL NIL without parameters.
func TestKnown_C12_content_type_comment(t *testing.T) {
	onlyShard0(t)

	const msg = "From: a@b.c\r\nDate: Mon, 7 Feb 1994 21:52:25 -0800\r\nContent-type: text/plain; charset=us-ascii (Plain text)\r\n\r\nx\r\n"

	pm, err := imap.NewParsedMessage([]byte(msg))
	if err != nil {
		t.Fatalf("VERIF-VIOLATION NewParsedMessage fails on the regression input: %v", err)
	}

	x, _, err := parseIMAPList(pm.Body)
	if err != nil {
		t.Fatalf("VERIF-VIOLATION %v", err)
	}

	correct := len(x.items) == 8 && strings.EqualFold(x.items[0].str(), "text") && strings.EqualFold(x.items[1].str(), "plain")
	knownOutcome(t, kfCTComment, !correct, "BODY of the RFC 2045 example 'text/plain; charset=us-ascii (Plain text)' is "+pm.Body)
}

// TestKnown_C12_comment_depth: a header comment nested a few million deep exhausts the goroutine stack in
// rfc5322.parseComment: fatal error, the process dies (a 6 MB header, far below the 30 MiB literal limit).
func TestKnown_C12_comment_depth(t *testing.T) {
	onlyShard0(t)

	b := gmime.DeepComment(6000000, false, "To", 0)
	v := runChild(t, [][]byte{b}, linearBudget(len(b)))[0]

	switch v.status {
	case "ok":
		knownOutcome(t, kfCommentDepth, false, "")
	case "crash":
		knownOutcome(t, kfCommentDepth, strings.Contains(v.detail, "stack"), "child process died parsing 'To: ((((... ' with 6 000 000 open parentheses:\n"+v.detail)

		if !strings.Contains(v.detail, "stack") {
			t.Fatalf("VERIF-VIOLATION child process died for another reason:\n%s", v.detail)
		}
	case "timeout", "not-run":
		t.Fatalf("VERIF-INCONCLUSIVE: regression of %s: child %s (%s)", kfCommentDepth, v.status, v.detail)
	default:
		t.Fatalf("VERIF-VIOLATION %s on the regression input of %s: %s", v.status, kfCommentDepth, v.detail)
	}
}
