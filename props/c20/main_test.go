package c20

import (
	"runtime"
	"runtime/debug"
	"testing"

	"verif/internal/ev"
)

func TestMain(m *testing.M) {
	// Every step opens several short-lived connections (fresh views): most of the CPU time went into the garbage
	// collector and into runtime lock contention between 16 Ps. Neither setting changes what is explored.
	debug.SetGCPercent(400)

	if runtime.GOMAXPROCS(0) > 4 {
		runtime.GOMAXPROCS(4)
	}

	ev.Main(m, "C20", "exploration",
		"rapid state machine on a real server with the harness connector: before every command a fault schedule is drawn (per call of CreateMessage, AddMessagesToMailbox, RemoveMessagesFromMailbox, MoveMessages: success / generic error / ErrMessageSizeExceedsLimits); commands: APPEND of fresh messages, byte-identical repeats, variants differing only in content rfc822.GetMessageHash does not cover (other header fields, transfer encoding of a text part, multipart boundary) or only in content it covers (Cc, To address, subject, body text, leaf Content-Type), bytes fetched from the server (with its id line); UID COPY / UID MOVE of one message or a range between ordinary mailboxes and out of `Recovered Messages`; STORE \\Deleted + EXPUNGE / UID EXPUNGE / CLOSE inside it; APPEND to / CREATE (also an inferior) / RENAME from / RENAME to / DELETE / COPY into / MOVE into it in drawn letter cases; LIST / LSUB with several patterns; server restart. Oracle after every command, on fresh views (new session, EXAMINE + BODY.PEEK[]) of every mailbox, two-sided: APPEND answered OK => the target holds the literal behind one `X-Pm-Gluon-Id` line under the announced APPENDUID; APPEND answered NO after a generic remote failure => `Recovered Messages` holds the exact literal (no id line added) unless it already holds a message of the same identity, never two of one identity; size refusal => recovery unchanged or + the literal; NO without a failing connector call is reported; refused commands change nothing; COPY/MOVE answered OK put the exact bytes (out of recovery: behind a fresh id line) under the COPYUID uids, MOVE removes the source; every other message keeps uid and bytes; LIST \"\" * = the ordinary mailboxes plus `Recovered Messages` exactly while its fresh view is non-empty. Non-trivial: a case with >= 1 remote failure of an APPEND followed by an APPEND of the same bytes, or a MOVE out of the recovery mailbox answered OK; distinct by hash of the operation sequence.",
		"distinct message = identity by construction: specs of one identity differ only in content the doc comment of rfc822.GetMessageHash excludes; TestGenerator_IdentityMatchesHash checks that the generator and the hash agree on every spec",
		"one fresh message in six is damaged (a text part declared base64 whose body is not base64): APPEND accepts it, rfc822.GetMessageHash fails on it, so it cannot be recognised as a duplicate; it must be kept when the remote refuses it, a second copy after a repeated APPEND is not judged",
		"the machine runs against a remote without de-duplication; a second property (TestC20DedupRemoteMoveOut) runs MOVE / COPY out of the recovery mailbox against a remote that answers CreateMessage with the ID of a message it holds already, with a direct oracle (the target holds the bytes, MOVE empties what it named, nothing else disappears)",
		"connector policy silent, folder semantics for MoveMessages, no literal de-duplication by the remote",
		"one client session brought up to date by SELECT before every COPY/MOVE/STORE; stale views are the subject of C01/C02/C16")
}
