package c20

import (
	"errors"
	"fmt"
	"sort"
	"strconv"
	"strings"
	"syscall"
	"time"

	"verif/internal/bed"
	"verif/internal/imapc"
)

// The shared machine runs many checks at once; each TCP connection leaves a socket in TIME_WAIT for a minute, and
// when the ephemeral port range is used up listen / connect fail with EADDRINUSE / EADDRNOTAVAIL. That says nothing
// about gluon: such steps are retried for a while and end the run as inconclusive (never as a violation) otherwise.
// For the same reason this check reads the mailboxes after every step through one persistent observer session
// (EXAMINE takes a new snapshot from the database each time; bodies are fetched for UIDs not seen before) instead of a
// new connection per mailbox and step; fresh views in the strict sense (new connection, new login, every body) are
// taken after every restart and at the end of each case, where they must agree with what the observer saw. Every
// connection of this check is closed by the server first (LOGOUT, then wait for EOF), which keeps the TIME_WAIT
// sockets off the client's ephemeral ports.

func infraErr(err error) bool {
	if err == nil {
		return false
	}

	if errors.Is(err, syscall.EADDRINUSE) || errors.Is(err, syscall.EADDRNOTAVAIL) || errors.Is(err, syscall.EMFILE) || errors.Is(err, syscall.ENFILE) {
		return true
	}

	s := err.Error()

	return strings.Contains(s, "address already in use") || strings.Contains(s, "cannot assign requested address") || strings.Contains(s, "too many open files")
}

// retryInfra runs fn until it succeeds or fails for a reason other than the machine's resources (at most ~90 s).
func retryInfra(fn func() error) error {
	var err error

	for i := 0; i < 45; i++ {
		if err = fn(); !infraErr(err) {
			return err
		}

		time.Sleep(2 * time.Second)
	}

	return err
}

func startBed() (*bed.Bed, error) {
	var b *bed.Bed

	err := retryInfra(func() error {
		var err error
		b, err = bed.Start(bed.Options{}, bed.UserSpec{Name: "user", Pass: "pass"})

		return err
	})

	return b, err
}

const inconclusive = "VERIF-INCONCLUSIVE: "

// errInconsistent marks answers of the server that contradict themselves (as opposed to transport errors).
var errInconsistent = errors.New("inconsistent answer")

func infraPrefix(err error) string {
	if infraErr(err) {
		return inconclusive + "machine resources: "
	}

	return "harness: "
}

// closeGracefully logs out and lets the server close the connection first: the side that closes first keeps a socket
// in TIME_WAIT, and on the client side that socket occupies an ephemeral port of the machine.
func closeGracefully(c *imapc.Client) {
	if r := c.Cmd("LOGOUT"); r.Err == nil {
		for i := 0; i < 3; i++ {
			if resp, err := c.TryReadResponse(2 * time.Second); err != nil || resp == nil {
				break
			}
		}
	}

	c.Close()
}

// logoutSession is bed.Session.Logout with a graceful close.
func logoutSession(s *bed.Session) {
	if !s.Dead {
		if r := s.Client.Cmd("LOGOUT"); r.Err == nil {
			for i := 0; i < 3; i++ {
				if resp, err := s.Client.TryReadResponse(2 * time.Second); err != nil || resp == nil {
					break
				}
			}
		}

		s.Dead = true
	}

	s.Logout() // closes, waits for the server-side state to vanish, forgets the gate
}

// waitStatesGone waits (bounded, not a correctness signal) until the user has no states other than the given ones:
// a barrier must not be placed while a throw-away session is still being torn down.
func waitStatesGone(b *bed.Bed, u *bed.User, keep []int64) {
	k := map[int64]bool{}
	for _, id := range keep {
		k[id] = true
	}

	for i := 0; i < 4000; i++ {
		extra := false

		for _, id := range b.Server.VerifStateIDs(u.ID) {
			if !k[id] {
				extra = true
			}
		}

		if !extra {
			return
		}

		time.Sleep(500 * time.Microsecond)

		if i > 200 {
			time.Sleep(5 * time.Millisecond)
		}
	}
}

// freshViews is a fresh view in the strict sense of every given mailbox: a new connection logs in, EXAMINEs each
// mailbox and fetches UID and BODY.PEEK[] of 1:* (what bed.FreshView does per mailbox, on one connection that is
// closed by the server first).
func freshViews(b *bed.Bed, u *bed.User, boxes []string) (map[string][]entry, error) {
	before := b.Server.VerifStateIDs(u.ID)

	c, err := dialObserver(b, u, "fv")
	if err != nil {
		return nil, err
	}

	defer waitStatesGone(b, u, before)
	defer closeGracefully(c)

	res := map[string][]entry{}

	for _, box := range boxes {
		es, _, _, ok, err := examine(c, box, 0, nil)
		if err != nil {
			return nil, err
		}

		if !ok {
			return nil, fmt.Errorf("%w: mailbox %q can not be examined by a new session", errInconsistent, box)
		}

		res[box] = es
	}

	return res, nil
}

// dialObserver opens a session that is not recorded in the history (summary lines are).
func dialObserver(b *bed.Bed, u *bed.User, name string) (*imapc.Client, error) {
	var c *imapc.Client

	err := retryInfra(func() error {
		var err error
		c, err = imapc.Dial(b.Addr, name, nil, 60*time.Second)

		return err
	})
	if err != nil {
		return nil, err
	}

	if r := c.Cmdf("LOGIN %s %s", bed.Quote(u.Name), bed.Quote(u.Pass)); !r.OK() {
		c.Close()
		return nil, fmt.Errorf("observer login: %v", r)
	}

	return c, nil
}

// examine reads a mailbox through the observer: a new snapshot of the database content. known = the bodies already
// seen under their UIDs in this mailbox while it had UIDVALIDITY knownValidity.
// ok=false: the mailbox can not be examined.
func examine(c *imapc.Client, box string, knownValidity uint32, known map[uint32]string) (res []entry, validity, next uint32, ok bool, err error) {
	r := c.Cmdf("EXAMINE %s", bed.Quote(box))
	if r.Err != nil {
		return nil, 0, 0, false, r.Err
	}

	if !r.OK() {
		return nil, 0, 0, false, nil
	}

	count := -1

	for _, un := range r.Untagged {
		if n, kw, k := un.Num(); k && kw == "EXISTS" {
			count = int(n)
		}

		if un.Status == "OK" {
			if f := strings.Fields(un.Code); len(f) == 2 {
				v, _ := strconv.ParseUint(f[1], 10, 32)

				switch strings.ToUpper(f[0]) {
				case "UIDVALIDITY":
					validity = uint32(v)
				case "UIDNEXT":
					next = uint32(v)
				}
			}
		}
	}

	if validity != knownValidity {
		known = nil
	}

	// sizes of everything, bodies of the UIDs not seen before (a body seen once under a UID is compared again by the
	// cross-check with new sessions; here its size must not change)
	fr := c.Cmd("UID FETCH 1:* (RFC822.SIZE)")
	if fr.Err != nil {
		return nil, 0, 0, false, fr.Err
	}

	if !fr.OK() {
		return nil, 0, 0, false, fmt.Errorf("%w: observer fetch in %q: %v", errInconsistent, box, fr)
	}

	type row struct {
		seq  uint32
		e    entry
		size int
	}

	var (
		rows    []row
		unknown []string
	)

	for _, un := range fr.Untagged {
		n, kw, k := un.Num()
		if !k || kw != "FETCH" {
			continue
		}

		it, k := imapc.FetchItems(un)
		if !k {
			return nil, 0, 0, false, fmt.Errorf("%w: observer: malformed FETCH %s", errInconsistent, un.Raw)
		}

		uid, _ := strconv.ParseUint(it["UID"].Str, 10, 32)
		size, _ := strconv.Atoi(it["RFC822.SIZE"].Str)
		rows = append(rows, row{n, entry{uid: uint32(uid)}, size})

		if _, ok := known[uint32(uid)]; !ok {
			unknown = append(unknown, it["UID"].Str)
		}
	}

	bodies := map[uint32]string{}

	if len(unknown) > 0 {
		br := c.Cmd("UID FETCH " + strings.Join(unknown, ",") + " (BODY.PEEK[])")
		if br.Err != nil {
			return nil, 0, 0, false, br.Err
		}

		if !br.OK() {
			return nil, 0, 0, false, fmt.Errorf("%w: observer body fetch in %q: %v", errInconsistent, box, br)
		}

		for _, un := range br.Untagged {
			if _, kw, k := un.Num(); !k || kw != "FETCH" {
				continue
			}

			it, k := imapc.FetchItems(un)
			if !k {
				return nil, 0, 0, false, fmt.Errorf("%w: observer: malformed FETCH %s", errInconsistent, un.Raw)
			}

			uid, _ := strconv.ParseUint(it["UID"].Str, 10, 32)
			bodies[uint32(uid)] = it["BODY[]"].Str
		}
	}

	for i := range rows {
		uid := rows[i].e.uid
		body, ok := known[uid]

		if !ok {
			if body, ok = bodies[uid]; !ok {
				return nil, 0, 0, false, fmt.Errorf("%w: mailbox %q: no BODY[] answered for uid %d", errInconsistent, box, uid)
			}
		}

		if rows[i].size != len(body) {
			return nil, 0, 0, false, fmt.Errorf("%w: mailbox %q uid %d: RFC822.SIZE %d but BODY[] has %d bytes", errInconsistent, box, uid, rows[i].size, len(body))
		}

		rows[i].e.raw = body
	}

	sort.Slice(rows, func(i, j int) bool { return rows[i].seq < rows[j].seq })

	for i, rw := range rows {
		if rw.seq != uint32(i+1) {
			return nil, 0, 0, false, fmt.Errorf("%w: mailbox %q: sequence numbers not dense: %d at position %d", errInconsistent, box, rw.seq, i+1)
		}

		if i > 0 && rows[i-1].e.uid >= rw.e.uid {
			return nil, 0, 0, false, fmt.Errorf("%w: mailbox %q: UIDs not ascending: %d then %d", errInconsistent, box, rows[i-1].e.uid, rw.e.uid)
		}

		res = append(res, rw.e)
	}

	if count >= 0 && count != len(res) {
		return nil, 0, 0, false, fmt.Errorf("%w: mailbox %q: EXISTS %d but %d messages fetched", errInconsistent, box, count, len(res))
	}

	return res, validity, next, true, nil
}
