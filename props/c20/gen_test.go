package c20

import (
	"github.com/ProtonMail/gluon/imap"
	"testing"

	"github.com/ProtonMail/gluon/rfc822"
	"github.com/ProtonMail/gluon/rfcvalidation"
)

// allSpecs enumerates every spec of two bases.
func allSpecs() []spec {
	var res []spec

	for base := 1; base <= 2; base++ {
		for hv := 0; hv < nHV; hv++ {
			for _, multi := range []bool{false, true} {
				for uv := 0; uv < nUV; uv++ {
					if uv == 6 && !multi {
						continue
					}

					res = append(res, spec{Base: base, HV: hv, Multi: multi, UV: uv})
				}
			}
		}
	}

	return res
}

// Precondition of the oracle ("once per distinct message"): for every pair of specs, equal identity <=> equal
// GetMessageHash, the bytes of different specs differ, and every message passes the APPEND validation.
func TestGenerator_IdentityMatchesHash(t *testing.T) {
	specs := allSpecs()
	hashes := make([]string, len(specs))
	lits := map[string]spec{}

	for i, s := range specs {
		lit := build(s)

		if other, dup := lits[lit]; dup {
			t.Fatalf("generator: specs %v and %v build the same bytes", s, other)
		}

		lits[lit] = s

		if err := rfcvalidation.ValidateMessageHeaderFields([]byte(lit)); err != nil {
			t.Fatalf("generator: %v is not accepted by APPEND: %v", s, err)
		}

		h, err := rfc822.GetMessageHash([]byte(lit))
		if err != nil {
			t.Fatalf("generator: GetMessageHash(%v): %v", s, err)
		}

		hashes[i] = h
	}

	for i := range specs {
		for j := i + 1; j < len(specs); j++ {
			same := specs[i].identity() == specs[j].identity()
			if (hashes[i] == hashes[j]) != same {
				t.Fatalf("generator and rfc822.GetMessageHash disagree: %v and %v: same identity=%v, same hash=%v\n%q\n%q",
					specs[i], specs[j], same, hashes[i] == hashes[j], build(specs[i]), build(specs[j]))
			}
		}
	}
}

// Precondition of the damaged variant: APPEND accepts it, the message parser accepts it, GetMessageHash does not.
func TestGenerator_DamagedHasNoHash(t *testing.T) {
	for _, multi := range []bool{false, true} {
		lit := build(spec{Base: 1, Multi: multi, Damaged: true})

		if err := rfcvalidation.ValidateMessageHeaderFields([]byte(lit)); err != nil {
			t.Fatalf("generator: the damaged message is not accepted by APPEND: %v", err)
		}

		if _, err := imap.NewParsedMessage([]byte(lit)); err != nil {
			t.Fatalf("generator: the damaged message is not accepted by the message parser: %v", err)
		}

		if h, err := rfc822.GetMessageHash([]byte(lit)); err == nil {
			t.Fatalf("generator: GetMessageHash succeeds on the damaged message (%s): it is not damaged enough", h)
		}
	}
}
