package c20

import (
	"fmt"
	"sort"
	"strings"
	"testing"

	"verif/internal/bed"
	"verif/internal/imapc"
	"verif/internal/kf"
	"verif/internal/vconn"
)

// script is a small fixture for the deterministic tests of this package.
type script struct {
	t *testing.T
	b *bed.Bed
	u *bed.User
	s *bed.Session
	f *faults
}

func newScript(t *testing.T) *script {
	b, err := bed.Start(bed.Options{}, bed.UserSpec{Name: "user", Pass: "pass"})
	if err != nil {
		t.Fatal(err)
	}

	t.Cleanup(b.Destroy)

	sc := &script{t: t, b: b, u: b.Users[0], f: &faults{hist: b.Hist}}
	sc.u.Conn.Lock(func() { sc.u.Conn.Fail = sc.f.fail })
	sc.login()

	return sc
}

func (sc *script) login() {
	s, err := sc.b.Login("c", sc.u)
	if err != nil {
		sc.t.Fatal(err)
	}

	sc.s = s
}

// appendWith sends APPEND under the given schedule and returns the status.
func (sc *script) appendWith(box, lit string, plan map[string][]int) *imapc.Result {
	sc.f.set(plan)
	r := sc.s.DoParts(imapc.T("APPEND "+bed.Quote(box)+" "), imapc.L([]byte(lit)))
	sc.f.set(nil)

	return r
}

func (sc *script) doWith(cmd string, plan map[string][]int) *imapc.Result {
	sc.f.set(plan)
	r := sc.s.Do(cmd)
	sc.f.set(nil)

	return r
}

func (sc *script) view(box string) []bed.FreshMsg {
	msgs, _, _, ok, err := sc.b.FreshView(sc.u, box, true)
	if err != nil || !ok {
		sc.t.Fatalf("fresh view of %s: ok=%v err=%v\n%s", box, ok, err, sc.b.Hist)
	}

	return msgs
}

func (sc *script) mustStatus(r *imapc.Result, ok bool) {
	if r.OK() != ok {
		sc.t.Fatalf("unexpected answer: %v\n%s", r, sc.b.Hist)
	}
}

// known C20-hash-forgotten-by-failed-move-out: a MOVE out of the recovery mailbox erases the hashes of the moved
// messages before the last remote call of the command (labelling in the destination); when that call fails the command
// is answered NO and rolled back: the messages are still in the recovery mailbox but their hashes are forgotten, so the
// next failing APPEND of the same bytes is stored a second time.
func TestKnown_C20_hash_forgotten_by_failed_move_out(t *testing.T) {
	sc := newScript(t)
	lit := build(spec{Base: 1})

	sc.mustStatus(sc.appendWith("INBOX", lit, map[string][]int{"CreateMessage": {fInjected}}), false)

	if v := sc.view(recovery); len(v) != 1 || v[0].Body != lit {
		t.Fatalf("C20 violated: after a refused APPEND the recovery mailbox holds %d messages\n%s", len(v), sc.b.Hist)
	}

	sc.mustStatus(sc.s.Select(recovery, false), true)
	// import succeeds, labelling fails: the command is refused and rolled back
	sc.mustStatus(sc.doWith("UID MOVE 1 INBOX", map[string][]int{"AddMessagesToMailbox": {fInjected}}), false)

	if v := sc.view(recovery); len(v) != 1 {
		t.Fatalf("C20 violated: a refused MOVE out of the recovery mailbox left %d messages there\n%s", len(v), sc.b.Hist)
	}

	// the same bytes are refused by the remote again
	sc.mustStatus(sc.appendWith("INBOX", lit, map[string][]int{"CreateMessage": {fInjected}}), false)

	v := sc.view(recovery)
	if len(v) == 1 {
		return // not reproduced
	}

	if !kf.Report(kfEraseOnFailedMove) {
		t.Fatalf("C20 violated (not listed as known): the recovery mailbox holds the same message %d times (%s) after: APPEND refused (CreateMessage fails), UID MOVE 1 INBOX out of it refused (AddMessagesToMailbox fails), same APPEND refused again\n%s",
			len(v), uidsOf(v), sc.b.Hist)
	}
}

func uidsOf(v []bed.FreshMsg) string {
	s := ""
	for _, m := range v {
		s += fmt.Sprintf("uid %d ", m.UID)
	}

	return s
}

// The scenarios of gluon's own tests (tests/recovery_mailbox_test.go), through the oracle's eyes: anchors the reading
// of "exact bytes" (id line absent in the recovery mailbox, present after the move into an ordinary mailbox).
func TestScripted_RecoveryBasics(t *testing.T) {
	sc := newScript(t)
	lit := build(spec{Base: 1})
	other := build(spec{Base: 1, HV: 5})
	variant := build(spec{Base: 1, UV: 2})

	names := func() string {
		var ns []string

		for _, un := range sc.s.Do(`LIST "" *`).Untagged {
			if un.Keyword() == "LIST" {
				ns = append(ns, un.Tokens[3].Str)
			}
		}

		sort.Strings(ns)

		return strings.Join(ns, "|") + "|"
	}

	if n := names(); n != "INBOX|" {
		t.Fatalf("LIST with an empty recovery mailbox: %s", n)
	}

	// size refusal: the command is refused; whether the bytes are kept is not part of the property (gluon keeps nothing:
	// TestRecoveryMailboxDoesNotStoreMessageWhichExceedLimit), so a distinct message is used and nothing is asserted
	sc.mustStatus(sc.appendWith("INBOX", build(spec{Base: 9}), map[string][]int{"CreateMessage": {fSize}}), false)

	if v := sc.view(recovery); len(v) == 1 {
		// kept: allowed; remove it so that the rest of the script starts from an empty recovery mailbox
		sc.mustStatus(sc.s.Select(recovery, false), true)
		sc.mustStatus(sc.s.Do(`UID STORE 1 +FLAGS (\Deleted)`), true)
		sc.mustStatus(sc.s.Do("CLOSE"), true)
	}

	// generic failure, a byte-identical repeat, a hash-equal variant, a distinct message (TestFailedAppendAreDedupedInRecoveryMailbox)
	for _, l := range []string{lit, lit, variant, other} {
		sc.mustStatus(sc.appendWith("INBOX", l, map[string][]int{"CreateMessage": {fInjected}}), false)
	}

	v := sc.view(recovery)
	if len(v) != 2 || v[0].Body != lit || v[1].Body != other {
		t.Fatalf("C20 violated: recovery mailbox holds %d messages, expected the first literal and the distinct one, byte-exact\n%s", len(v), sc.b.Hist)
	}

	if n := names(); n != "INBOX|"+recovery+"|" {
		t.Fatalf("LIST with a non-empty recovery mailbox: %s", n)
	}

	// after a restart the repeat is still recognised
	sc.s.Logout()

	if err := sc.b.Restart(); err != nil {
		t.Fatal(err)
	}

	sc.login()
	sc.mustStatus(sc.appendWith("INBOX", lit, map[string][]int{"CreateMessage": {fInjected}}), false)

	v = sc.view(recovery)
	if len(v) != 2 {
		t.Fatalf("C20 violated: after a restart a byte-identical refused APPEND is stored again (%d messages)\n%s", len(v), sc.b.Hist)
	}

	first, second := v[0].UID, v[1].UID

	// move out (TestRecoveryMBoxCanBeMovedOutOf), copy out (TestRecoveryMBoxCanBeCopiedOutOf)
	sc.mustStatus(sc.s.Select(recovery, false), true)
	sc.mustStatus(sc.s.Do(fmt.Sprintf("UID MOVE %d INBOX", first)), true)
	sc.mustStatus(sc.s.Do(fmt.Sprintf("UID COPY %d INBOX", second)), true)

	in := sc.view("INBOX")
	if len(in) != 2 {
		t.Fatalf("INBOX holds %d messages\n%s", len(in), sc.b.Hist)
	}

	for i, want := range []string{lit, other} {
		if id, rest := leadingID(in[i].Body); id == "" || rest != want {
			t.Fatalf("C20 violated: message %d moved/copied out of recovery: %q", i, in[i].Body)
		}
	}

	if v := sc.view(recovery); len(v) != 1 || v[0].Body != other {
		t.Fatalf("recovery after move+copy: %d messages\n%s", len(v), sc.b.Hist)
	}

	// expunge (TestRecoveryMBoxCanBeExpunged)
	sc.mustStatus(sc.s.Do(fmt.Sprintf(`UID STORE %d +FLAGS (\Deleted)`, second)), true)
	sc.mustStatus(sc.s.Do("EXPUNGE"), true)

	if v := sc.view(recovery); len(v) != 0 {
		t.Fatalf("recovery after expunge: %d messages", len(v))
	}

	if n := names(); n != "INBOX|" {
		t.Fatalf("LIST after the recovery mailbox became empty: %s", n)
	}

	_ = vconn.ErrInjected
}
