package c20

import (
	"fmt"
	"strings"
	"testing"

	"pgregory.net/rapid"

	"verif/internal/bed"
	"verif/internal/ev"
	"verif/internal/imapc"
)

// A remote that de-duplicates (CreateMessage answers with the ID of a message it holds already when it is handed the
// same bytes again; actionCreateMessage and actionImportRecoveredMessage handle that case explicitly). The main
// machine runs against a remote without de-duplication; this property covers the clause "its messages can be moved or
// copied out into a normal mailbox" for the other kind: messages are refused (kept in the recovery mailbox), the same
// bytes are accepted later into some mailbox, then the recovered ones are moved / copied out. Oracle, without the full
// model: after an OK the target holds the bytes of every message named by the command, MOVE empties what it named
// from the recovery mailbox, COPY leaves it there, and nothing else disappears from any mailbox.
func TestC20DedupRemoteMoveOut(t *testing.T) {
	ev.Checks(40, 600)

	rapid.Check(t, func(t *rapid.T) {
		b, err := bed.Start(bed.Options{}, bed.UserSpec{Name: "user", Pass: "pass"})
		if err != nil {
			t.Fatalf("VERIF-INCONCLUSIVE: bed: %v", err)
		}

		defer b.Destroy()

		u := b.Users[0]
		f := &faults{hist: b.Hist}

		u.Conn.Lock(func() { u.Conn.Fail = f.fail; u.Conn.DedupLiterals = true })

		s, err := b.Login("c", u)
		if err != nil {
			t.Fatalf("VERIF-INCONCLUSIVE: login: %v", err)
		}

		boxes := []string{"INBOX", "A", "T"}

		for _, bx := range boxes[1:] {
			if r := s.Do("CREATE " + bx); !r.OK() {
				t.Fatalf("harness: %v", r)
			}
		}

		var ops []string

		fail := func(format string, a ...any) {
			t.Fatalf("C20 violated: "+format+"\noperations:\n  %s\nhistory:\n%s", append(a, strings.Join(ops, "\n  "), b.Hist)...)
		}

		holds := func(box, lit string) int {
			msgs, _, _, ok, err := b.FreshView(u, box, true)
			if err != nil || !ok {
				if box == recovery {
					return 0 // not listed while it is empty
				}

				t.Fatalf("harness: fresh view of %s: ok=%v err=%v", box, ok, err)
			}

			n := 0

			for _, m := range msgs {
				if stripIDs(m.Body) == lit {
					n++
				}
			}

			return n
		}

		n := rapid.IntRange(1, 3).Draw(t, "messages")
		lits := make([]string, n)

		for i := range lits {
			lits[i] = build(spec{Base: i + 1, Multi: rapid.Bool().Draw(t, "multi")})

			// refused by the remote: kept in the recovery mailbox
			f.set(map[string][]int{"CreateMessage": {fInjected}})
			r := s.DoParts(imapc.T("APPEND INBOX "), imapc.L([]byte(lits[i])))
			f.set(nil)

			ops = append(ops, fmt.Sprintf("APPEND INBOX m%d refused by the remote -> %s", i+1, r.Status))

			if r.OK() {
				fail("an APPEND the remote refused was answered OK")
			}

			if holds(recovery, lits[i]) != 1 {
				fail("the refused message m%d is not kept in %q", i+1, recovery)
			}

			// the same bytes are accepted later (by most of them), into a drawn mailbox
			if rapid.IntRange(0, 3).Draw(t, "acceptedLater") > 0 {
				box := boxes[rapid.IntRange(0, len(boxes)-1).Draw(t, "acceptedInto")]
				r := s.DoParts(imapc.T("APPEND "+box+" "), imapc.L([]byte(lits[i])))
				ops = append(ops, fmt.Sprintf("APPEND %s m%d -> %s", box, i+1, r.Status))

				if !r.OK() {
					fail("valid APPEND refused: %v", r)
				}
			}
		}

		before := map[string][]int{}
		for _, bx := range boxes {
			for _, l := range lits {
				before[bx] = append(before[bx], holds(bx, l))
			}
		}

		if r := s.Select(recovery, false); !r.OK() {
			fail("SELECT %q refused: %v", recovery, r)
		}

		lo := rapid.IntRange(1, n).Draw(t, "lo")
		hi := rapid.IntRange(lo, n).Draw(t, "hi")
		verb := rapid.SampledFrom([]string{"MOVE", "MOVE", "COPY"}).Draw(t, "verb")
		dst := boxes[rapid.IntRange(0, len(boxes)-1).Draw(t, "dst")]

		r := s.Do(fmt.Sprintf("%s %d:%d %s", verb, lo, hi, dst))
		ops = append(ops, fmt.Sprintf("%s %d:%d %s (out of %q) -> %s", verb, lo, hi, dst, recovery, r.Status))

		if !r.OK() {
			fail("%s out of the recovery mailbox refused although no remote call failed: %v", verb, r)
		}

		for i, l := range lits {
			named := i+1 >= lo && i+1 <= hi
			inRec := holds(recovery, l)

			switch {
			case named && holds(dst, l) == 0:
				fail("%s %d:%d %s answered OK, but %s does not hold the bytes of m%d", verb, lo, hi, dst, dst, i+1)
			case named && verb == "MOVE" && inRec != 0:
				fail("MOVE %d:%d %s answered OK, but m%d is still in %q", lo, hi, dst, i+1, recovery)
			case (!named || verb == "COPY") && inRec != 1:
				fail("m%d was not moved, yet %q holds it %d times", i+1, recovery, inRec)
			}

			for _, bx := range boxes {
				if was := before[bx][i]; was > 0 && holds(bx, l) == 0 {
					fail("%s held m%d before the %s out of the recovery mailbox and does not hold it any more", bx, i+1, verb)
				}
			}
		}

		ev.Case(true, ev.Hash(strings.Join(ops, ";")), "dedup-remote", "dedup:"+strings.ToLower(verb))

		if ev.WantSample() {
			ev.Sample(ops)
		}
	})
}
