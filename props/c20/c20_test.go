package c20

import (
	"context"
	"errors"
	"fmt"
	"sort"
	"strconv"
	"strings"
	"sync"
	"testing"

	"github.com/ProtonMail/gluon/connector"
	"pgregory.net/rapid"

	"verif/internal/bed"
	"verif/internal/ev"
	"verif/internal/imapc"
	"verif/internal/kf"
	"verif/internal/vconn"
)

const recovery = "Recovered Messages"

// kfEraseOnFailedMove: see known_test.go.
const kfEraseOnFailedMove = "C20-hash-forgotten-by-failed-move-out"

// ---- fault schedule ----

const (
	fOK = iota
	fInjected
	fSize
)

var fName = []string{"ok", "injected", "size"}

// the connector methods the schedule ranges over (vconn method names)
var methods = []string{"CreateMessage", "AddMessagesToMailbox", "RemoveMessagesFromMailbox", "MoveMessages"}

type fevent struct {
	method string
	n      int
	kind   int
}

// faults is the drawn fault schedule: per method the outcomes of its next calls (success once the list is used up).
type faults struct {
	mu     sync.Mutex
	plan   map[string][]int
	events []fevent // calls made during the current command
	hist   *imapc.History
}

// fail is vconn's Fail hook (called with the connector locked, from the server's goroutines).
func (f *faults) fail(method string, n int) error {
	f.mu.Lock()
	defer f.mu.Unlock()

	kind := fOK

	if p := f.plan[method]; len(p) > 0 {
		kind = p[0]
		f.plan[method] = p[1:]
	}

	f.events = append(f.events, fevent{method, n, kind})
	f.hist.Add("connector: %s call #%d -> %s", method, n, fName[kind])

	switch kind {
	case fInjected:
		// "for any reason other than size": the reason varies with the call number (no reason is special to the server
		// except that session/errors.go does not report connector.ErrOperationNotAllowed to the crash reporter)
		switch n % 4 {
		case 1:
			return fmt.Errorf("remote says: %w", connector.ErrOperationNotAllowed)
		case 2:
			return connector.ErrOperationNotAllowed
		case 3:
			return fmt.Errorf("remote unreachable: %w", context.DeadlineExceeded)
		}

		return vconn.ErrInjected
	case fSize:
		if n%2 == 1 {
			return fmt.Errorf("remote says: %w", connector.ErrMessageSizeExceedsLimits)
		}

		return connector.ErrMessageSizeExceedsLimits
	}

	return nil
}

func (f *faults) set(plan map[string][]int) {
	f.mu.Lock()
	defer f.mu.Unlock()

	f.plan = plan
	f.events = nil
}

// firstFail returns the kind of the first failing connector call of the current command (fOK if none failed).
func (f *faults) firstFail() (int, string) {
	f.mu.Lock()
	defer f.mu.Unlock()

	for _, e := range f.events {
		if e.kind != fOK {
			return e.kind, e.method
		}
	}

	return fOK, ""
}

func (f *faults) calls() string {
	f.mu.Lock()
	defer f.mu.Unlock()

	var parts []string
	for _, e := range f.events {
		parts = append(parts, e.method+"="+fName[e.kind])
	}

	return strings.Join(parts, ",")
}

func planString(plan map[string][]int) string {
	var parts []string

	for _, m := range methods {
		if len(plan[m]) == 0 {
			continue
		}

		var o []string
		for _, k := range plan[m] {
			o = append(o, fName[k])
		}

		parts = append(parts, m+":"+strings.Join(o, "+"))
	}

	if len(parts) == 0 {
		return "all-ok"
	}

	return strings.Join(parts, " ")
}

// ---- observed state and expectations ----

type entry struct {
	uid uint32
	raw string
}

// want describes one message that must have appeared in a mailbox.
type want struct {
	uid      uint32 // announced UID (0: any new UID)
	exact    string // raw must equal this ...
	afterID  string // ... or (exact == ""): raw must be a fresh id line followed by this
	optional bool   // may be absent (size refusal: no requirement on the recovery mailbox)
	what     string
}

func (w want) matches(e entry) bool {
	if w.uid != 0 && w.uid != e.uid {
		return false
	}

	if w.exact != "" {
		return e.raw == w.exact
	}

	id, rest := leadingID(e.raw)

	return id != "" && rest == w.afterID
}

// expect: which previously observed messages must be gone and which must have appeared; everything else unchanged.
type expect struct {
	gone map[string]map[uint32]bool
	add  map[string][]want
}

func newExpect() *expect {
	return &expect{gone: map[string]map[uint32]bool{}, add: map[string][]want{}}
}

func (x *expect) remove(box string, uid uint32) {
	if x.gone[box] == nil {
		x.gone[box] = map[uint32]bool{}
	}

	x.gone[box][uid] = true
}

type env struct {
	t     *rapid.T
	b     *bed.Bed
	u     *bed.User
	s     *bed.Session  // the client
	obs   *imapc.Client // the observer
	f     *faults
	boxes []string // ordinary mailboxes

	cur      map[string][]entry // last observed content (ordinary mailboxes and the recovery mailbox)
	uidNext  map[string]uint32
	validity map[string]uint32

	reg      map[string]spec // every literal generated so far (without id lines)
	lits     []string        // literals handed to APPEND so far, in order, distinct
	failed   map[string]bool // literals whose APPEND met a remote failure
	nextBase int
	restarts int

	ops        []string
	inputs     []string
	labels     map[string]bool
	nontrivial bool
}

func (e *env) op(format string, a ...any) { e.ops = append(e.ops, fmt.Sprintf(format, a...)) }

// in records the inputs of a step (what identifies the case, without the server's answers).
func (e *env) in(format string, a ...any) { e.inputs = append(e.inputs, fmt.Sprintf(format, a...)) }

func (e *env) label(l string) {
	e.labels[l] = true
	ev.Class("op:"+l, 1)
}

func (e *env) fail(format string, a ...any) {
	msg := fmt.Sprintf("C20 violated: "+format, a...)
	// the verdict is repeated behind the history: the driver shows the tail of the output
	e.t.Fatalf("%s\noperations:\n  %s\nhistory:\n%s\n=> %s", msg, strings.Join(e.ops, "\n  "), e.b.Hist, msg)
}

func (e *env) harness(format string, a ...any) {
	e.t.Fatalf("harness: "+format+"\nhistory:\n%s", append(a, e.b.Hist)...)
}

func (e *env) allBoxes() []string { return append(append([]string(nil), e.boxes...), recovery) }

func (e *env) specOf(raw string) (spec, bool) {
	s, ok := e.reg[stripIDs(raw)]
	return s, ok
}

func short(raw string) string {
	if len(raw) > 400 {
		return fmt.Sprintf("%q…[%d bytes]", raw[:400], len(raw))
	}

	return fmt.Sprintf("%q", raw)
}

func (e *env) describe(es []entry) string {
	var parts []string

	for _, x := range es {
		name := "?"
		if s, ok := e.specOf(x.raw); ok {
			name = s.String()
		}

		id, _ := leadingID(x.raw)
		if id != "" {
			id = " id=" + strings.TrimSpace(strings.TrimPrefix(id, "X-Pm-Gluon-Id:"))[:8]
		}

		parts = append(parts, fmt.Sprintf("uid%d=%s%s", x.uid, name, id))
	}

	return "[" + strings.Join(parts, " ") + "]"
}

// view reads a mailbox through the observer session (a new snapshot of the database content).
func (e *env) view(box string) ([]entry, uint32, uint32) {
	known := map[uint32]string{}
	for _, p := range e.cur[box] {
		known[p.uid] = p.raw
	}

	res, validity, next, ok, err := examine(e.obs, box, e.validity[box], known)

	switch {
	case errors.Is(err, errInconsistent):
		e.fail("%v", err)
	case err != nil:
		e.harness("observer: %v", err)
	case !ok:
		e.fail("mailbox %q can not be examined", box)
	}

	e.b.Hist.Add("view(%s): uidvalidity=%d uidnext=%d %s", box, validity, next, e.describe(res))

	return res, validity, next
}

// crossCheck compares what the observer saw with fresh views in the strict sense (new connection, new login).
func (e *env) crossCheck(after string) {
	fresh, err := freshViews(e.b, e.u, e.allBoxes())

	switch {
	case errors.Is(err, errInconsistent):
		e.fail("after %s: %v", after, err)
	case err != nil:
		e.t.Fatalf("%sfresh views: %v\nhistory:\n%s", infraPrefix(err), err, e.b.Hist)
	}

	for _, box := range e.allBoxes() {
		got := fresh[box]
		same := len(got) == len(e.cur[box])

		for i := 0; same && i < len(got); i++ {
			same = got[i] == e.cur[box][i]
		}

		if !same {
			e.fail("after %s: a new session sees mailbox %q differently from what the observer session saw step by step (uids or bytes)\nnew session: %s\nobserver:    %s", after, box, e.describe(got), e.describe(e.cur[box]))
		}
	}
}

// listNames runs LIST/LSUB and returns the listed names.
func (e *env) listNames(cmd string) []string {
	r := e.s.Do(cmd)
	if !r.OK() {
		e.fail("%s refused: %v", cmd, r)
	}

	var names []string

	for _, un := range r.Untagged {
		if kw := un.Keyword(); (kw == "LIST" || kw == "LSUB") && len(un.Tokens) >= 4 {
			names = append(names, un.Tokens[3].Str)
		}
	}

	sort.Strings(names)

	return names
}

// observe reads every mailbox through fresh sessions, compares with the expectation (two-sided) and checks LIST.
func (e *env) observe(after string, x *expect) {
	if err := e.b.CheckPanics(); err != nil {
		e.fail("%v", err)
	}

	if x == nil {
		x = newExpect()
	}

	// everything queued for the sessions (the observer's included) is processed before the observer takes snapshots
	if err := e.b.Barrier(e.u); err != nil {
		e.t.Fatalf("%sbarrier: %v\nhistory:\n%s", inconclusive, err, e.b.Hist)
	}

	now := map[string][]entry{}

	defer e.obs.Cmd("UNSELECT")

	for _, box := range e.allBoxes() {
		got, validity, next := e.view(box)
		now[box] = got

		prev := e.cur[box]
		have := map[uint32]entry{}

		for _, g := range got {
			have[g.uid] = g
		}

		old := map[uint32]bool{}

		for _, p := range prev {
			old[p.uid] = true
			g, present := have[p.uid]

			switch {
			case x.gone[box][p.uid] && present:
				e.fail("after %s: mailbox %q still holds uid %d, which should have left it\nbefore: %s\nnow:    %s", after, box, p.uid, e.describe(prev), e.describe(got))
			case !x.gone[box][p.uid] && !present:
				e.fail("after %s: mailbox %q lost uid %d (%s)\nbefore: %s\nnow:    %s", after, box, p.uid, short(p.raw), e.describe(prev), e.describe(got))
			case present && !x.gone[box][p.uid] && g.raw != p.raw:
				e.fail("after %s: mailbox %q uid %d changed its bytes\nbefore: %s\nnow:    %s", after, box, p.uid, short(p.raw), short(g.raw))
			}
		}

		var news []entry

		for _, g := range got {
			if old[g.uid] {
				continue
			}

			if prevNext := e.uidNext[box]; e.validity[box] == validity && g.uid < prevNext {
				e.fail("after %s: mailbox %q: new message under uid %d, below the previous UIDNEXT %d", after, box, g.uid, prevNext)
			}

			news = append(news, g)
		}

		wants := x.add[box]
		used := make([]bool, len(news))

		// wants with an announced UID first, then by content
		order := make([]int, 0, len(wants))
		for i, w := range wants {
			if w.uid != 0 {
				order = append(order, i)
			}
		}

		for i, w := range wants {
			if w.uid == 0 {
				order = append(order, i)
			}
		}

		for _, wi := range order {
			w := wants[wi]
			found := false

			for i, n := range news {
				if !used[i] && w.matches(n) {
					used[i], found = true, true
					break
				}
			}

			if !found && !w.optional {
				detail := ""

				if w.uid != 0 {
					if g, ok := have[w.uid]; ok {
						detail = fmt.Sprintf("\nuid %d holds: %s", w.uid, short(g.raw))
					} else {
						detail = fmt.Sprintf("\nthere is no uid %d", w.uid)
					}
				}

				wantBytes := short(w.exact)
				if w.exact == "" {
					wantBytes = "X-Pm-Gluon-Id: <uuid>CRLF + " + short(w.afterID)
				}

				e.fail("after %s: mailbox %q does not hold %s (uid %d; 0 = any new uid) with bytes %s%s\nbefore: %s\nnow:    %s",
					after, box, w.what, w.uid, wantBytes, detail, e.describe(prev), e.describe(got))
			}
		}

		for i, n := range news {
			if !used[i] {
				e.fail("after %s: mailbox %q holds a message nobody put there: uid %d %s\nbefore: %s\nnow:    %s", after, box, n.uid, short(n.raw), e.describe(prev), e.describe(got))
			}
		}

		if box != recovery {
			for _, g := range got {
				if id, _ := leadingID(g.raw); id == "" {
					e.fail("after %s: ordinary mailbox %q uid %d does not start with the id header line: %s", after, box, g.uid, short(g.raw))
				}
			}
		}

		e.uidNext[box], e.validity[box] = next, validity
	}

	e.cur = now

	// once per distinct message (independent of the step-wise expectation)
	seen := map[string]uint32{}

	for _, r := range now[recovery] {
		s, ok := e.specOf(r.raw)
		if !ok {
			e.fail("after %s: %q holds bytes that were never handed to APPEND: uid %d %s", after, recovery, r.uid, short(r.raw))
		}

		if other, dup := seen[s.identity()]; dup && !s.Damaged {
			e.fail("after %s: %q holds message %s twice (uid %d and uid %d): %s", after, recovery, s.identity(), other, r.uid, e.describe(now[recovery]))
		}

		seen[s.identity()] = r.uid
	}

	// LIST: the ordinary mailboxes, and the recovery mailbox exactly while it is non-empty
	wantNames := append([]string(nil), e.boxes...)
	if len(now[recovery]) > 0 {
		wantNames = append(wantNames, recovery)
	}

	sort.Strings(wantNames)

	if got := e.listNames(`LIST "" *`); strings.Join(got, "|") != strings.Join(wantNames, "|") {
		e.fail("after %s: LIST \"\" * answers %q, expected %q (%q holds %d messages)", after, got, wantNames, recovery, len(now[recovery]))
	}
}

func (e *env) login() {
	err := retryInfra(func() error {
		var err error
		e.s, err = e.b.Login("c", e.u)

		return err
	})
	if err != nil {
		e.t.Fatalf("%slogin: %v\nhistory:\n%s", infraPrefix(err), err, e.b.Hist)
	}

	if e.obs, err = dialObserver(e.b, e.u, "obs"); err != nil {
		e.t.Fatalf("%sobserver: %v\nhistory:\n%s", infraPrefix(err), err, e.b.Hist)
	}
}

func (e *env) logout() {
	if e.obs != nil {
		closeGracefully(e.obs)
		e.obs = nil
	}

	if e.s != nil {
		logoutSession(e.s)
		e.s = nil
	}
}

func (e *env) held(identity string) bool {
	for _, r := range e.cur[recovery] {
		if s, ok := e.specOf(r.raw); ok && s.identity() == identity {
			return true
		}
	}

	return false
}

// live tells whether an ordinary mailbox currently holds a message with this id line.
func (e *env) live(id string) bool {
	for _, box := range e.boxes {
		for _, x := range e.cur[box] {
			if got, _ := leadingID(x.raw); got == id {
				return true
			}
		}
	}

	return false
}

// drawPlan draws the fault schedule for the next command: per method the outcomes of its first one or two calls.
func (e *env) drawPlan(t *rapid.T) map[string][]int {
	plan := map[string][]int{}

	if rapid.IntRange(0, 9).Draw(t, "faulty") >= 3 {
		for _, m := range methods {
			n := rapid.IntRange(1, 2).Draw(t, "calls:"+m)
			for i := 0; i < n; i++ {
				plan[m] = append(plan[m], rapid.SampledFrom([]int{fOK, fOK, fInjected, fInjected, fSize}).Draw(t, "outcome"))
			}
		}
	}

	return plan
}

func (e *env) arm(plan map[string][]int) {
	e.b.Hist.Add("fault schedule for the next command: %s", planString(plan))
	e.f.set(plan)
}

// caseVariant spells the recovery mailbox name in a drawn letter case.
func caseVariant(t *rapid.T) string {
	switch rapid.IntRange(0, 4).Draw(t, "case") {
	case 0:
		return recovery
	case 1:
		return strings.ToLower(recovery)
	case 2:
		return strings.ToUpper(recovery)
	case 3:
		return "Recovered messages"
	}

	b := []byte(recovery)
	mask := rapid.Uint32().Draw(t, "mask")

	for i := range b {
		if mask&(1<<uint(i)) != 0 {
			if b[i] >= 'a' && b[i] <= 'z' {
				b[i] -= 32
			} else if b[i] >= 'A' && b[i] <= 'Z' {
				b[i] += 32
			}
		}
	}

	return string(b)
}

func parseSet(s string) []uint32 {
	var res []uint32

	for _, part := range strings.Split(s, ",") {
		if a, b, ok := strings.Cut(part, ":"); ok {
			x, _ := strconv.ParseUint(a, 10, 32)
			y, _ := strconv.ParseUint(b, 10, 32)

			if x > y {
				x, y = y, x
			}

			for u := x; u <= y; u++ {
				res = append(res, uint32(u))
			}
		} else if part != "" {
			x, _ := strconv.ParseUint(part, 10, 32)
			res = append(res, uint32(x))
		}
	}

	return res
}

func codeOf(r *imapc.Result, name string) []string {
	codes := []string{r.Code}
	for _, u := range r.Untagged {
		codes = append(codes, u.Code)
	}

	for _, c := range codes {
		if f := strings.Fields(c); len(f) > 0 && strings.EqualFold(f[0], name) {
			return f
		}
	}

	return nil
}

// doAppend hands lit to APPEND under the drawn fault schedule and judges the outcome.
func (e *env) doAppend(kind, box, lit string, plan map[string][]int) {
	sp, ok := e.specOf(lit)
	if !ok {
		e.harness("unregistered literal")
	}

	repeat := false

	for _, l := range e.lits {
		if l == lit {
			repeat = true
		}
	}

	if !repeat {
		e.lits = append(e.lits, lit)
	}

	if e.failed[lit] {
		// a remote failure followed by a repeat of the same bytes
		e.nontrivial = true
		e.label("repeat-after-failure")
	}

	exists := false

	for _, b := range e.boxes {
		if b == box {
			exists = true
		}
	}

	e.in("%s APPEND %s %s plan=%s", kind, box, sp, planString(plan))
	e.arm(plan)
	r := e.s.DoParts(imapc.T("APPEND "+bed.Quote(box)+" "), imapc.L([]byte(lit)))
	kindOfFail, method := e.f.firstFail()
	calls := e.f.calls()
	e.arm(nil)

	e.op("%s: APPEND %s %s [%s] -> %s [%s]", kind, box, sp, calls, r.Status, r.Code)
	e.label(kind + ":" + fName[kindOfFail])

	if r.Err != nil || r.Bye {
		e.fail("APPEND ended the connection: %v", r)
	}

	x := newExpect()
	after := fmt.Sprintf("APPEND %s %s [connector calls: %s] -> %s %s", box, sp, calls, r.Status, r.Text)

	switch {
	case r.OK():
		if !exists {
			e.fail("%s: answered OK for a mailbox that does not exist", after)
		}

		f := codeOf(r, "APPENDUID")
		if len(f) != 3 {
			e.fail("%s: answered OK without APPENDUID: [%s]", after, r.Code)
		}

		v, _ := strconv.ParseUint(f[1], 10, 32)
		uid, _ := strconv.ParseUint(f[2], 10, 32)

		if uint32(v) != e.validity[box] {
			e.fail("%s: APPENDUID names UIDVALIDITY %d, mailbox %s has %d", after, v, box, e.validity[box])
		}

		w := want{uid: uint32(uid), afterID: lit, what: "the appended message " + sp.String()}

		if id, _ := leadingID(lit); id != "" && e.live(id) {
			// bytes carrying the id line of a live message: the server treats the APPEND as a copy of that message
			// (state/mailbox.go AppendRegular); an instance already in the target is replaced
			w = want{uid: uint32(uid), exact: lit, what: "the re-appended message " + sp.String()}

			for _, p := range e.cur[box] {
				if got, _ := leadingID(p.raw); got == id {
					x.remove(box, p.uid)
				}
			}
		}

		x.add[box] = append(x.add[box], w)

	case kindOfFail == fInjected:
		e.failed[lit] = true

		if !e.held(sp.identity()) {
			x.add[recovery] = append(x.add[recovery], want{exact: lit, what: fmt.Sprintf("the message %s refused by the remote (%s failed)", sp, method)})
		} else if sp.Damaged {
			// no hash, no duplicate detection: a second copy is not judged
			x.add[recovery] = append(x.add[recovery], want{exact: lit, optional: true, what: fmt.Sprintf("another copy of the damaged message %s", sp)})
		}

	case kindOfFail == fSize:
		e.failed[lit] = true

		if !e.held(sp.identity()) {
			x.add[recovery] = append(x.add[recovery], want{exact: lit, optional: true, what: "size-refused message"})
		}

	case !exists:
		// NO [TRYCREATE]

	default:
		e.fail("%s: refused although no connector call failed", after)
	}

	e.observe(after, x)
}

func (e *env) newSpec(t *rapid.T) spec {
	e.nextBase++

	s := spec{Base: e.nextBase, Multi: rapid.IntRange(0, 3).Draw(t, "multi") == 0}

	if rapid.IntRange(0, 5).Draw(t, "damaged") == 0 {
		s.Damaged = true
		e.labels["damaged-message"] = true

		return s
	}

	if rapid.IntRange(0, 3).Draw(t, "varied") == 0 {
		s.HV = rapid.IntRange(0, nHV-1).Draw(t, "hv")
		s.UV = rapid.IntRange(0, nUV-2).Draw(t, "uv")
	}

	return s
}

func (e *env) register(s spec) string {
	lit := build(s)
	e.reg[lit] = s

	return lit
}

func (e *env) pickBox(t *rapid.T) string {
	return e.boxes[rapid.IntRange(0, len(e.boxes)-1).Draw(t, "box")]
}

func run(t *rapid.T) {
	nBoxes := rapid.IntRange(2, 3).Draw(t, "nBoxes")
	boxes := []string{"INBOX", "A", "B"}[:nBoxes]

	b, err := startBed()
	if err != nil {
		t.Fatalf("%sbed: %v", infraPrefix(err), err)
	}

	defer b.Destroy()

	e := &env{
		t: t, b: b, u: b.Users[0], boxes: boxes, f: &faults{hist: b.Hist},
		cur: map[string][]entry{}, uidNext: map[string]uint32{}, validity: map[string]uint32{},
		reg: map[string]spec{}, failed: map[string]bool{}, labels: map[string]bool{},
	}

	e.u.Conn.Lock(func() { e.u.Conn.Fail = e.f.fail })
	e.login()

	defer e.logout()

	for _, box := range boxes[1:] {
		if r := e.s.Do("CREATE " + box); !r.OK() {
			t.Fatalf("create: %v", r)
		}
	}

	e.observe("setup", nil)

	steered := func(plan map[string][]int, moveOut bool) map[string][]int {
		// Listed finding: a MOVE out of the recovery mailbox that fails after the imports (at the label call) makes the
		// server forget the hashes of messages it still holds. Steer away: the label call of a move-out succeeds.
		if moveOut && kf.Listed(kfEraseOnFailedMove) {
			for _, k := range plan["AddMessagesToMailbox"] {
				if k != fOK {
					delete(plan, "AddMessagesToMailbox")
					ev.Excluded(1)

					break
				}
			}
		}

		return plan
	}

	actions := map[string]func(*rapid.T){
		"appendFresh": func(t *rapid.T) {
			box := e.pickBox(t)
			if rapid.IntRange(0, 19).Draw(t, "missing") == 0 {
				box = "Nope"
			}

			e.doAppend("append-fresh", box, e.register(e.newSpec(t)), e.drawPlan(t))
		},
		"appendRepeat": func(t *rapid.T) {
			if len(e.lits) == 0 {
				t.Skip("nothing appended yet")
			}

			// prefer literals that met a remote failure, or whose message the recovery mailbox holds right now
			cands := e.lits

			switch rapid.IntRange(0, 3).Draw(t, "prefer") {
			case 0, 1:
				var fl []string

				for _, l := range e.lits {
					if sp, _ := e.specOf(l); e.held(sp.identity()) {
						fl = append(fl, l)
					}
				}

				if len(fl) > 0 {
					cands = fl
				}
			case 2:
				var fl []string

				for _, l := range e.lits {
					if e.failed[l] {
						fl = append(fl, l)
					}
				}

				if len(fl) > 0 {
					cands = fl
				}
			}

			lit := cands[rapid.IntRange(0, len(cands)-1).Draw(t, "lit")]
			e.doAppend("append-repeat", e.pickBox(t), lit, e.drawPlan(t))
		},
		"appendVariant": func(t *rapid.T) {
			if len(e.lits) == 0 {
				t.Skip("nothing appended yet")
			}

			base, _ := e.specOf(e.lits[rapid.IntRange(0, len(e.lits)-1).Draw(t, "of")])
			v := base
			kind := "append-variant-unhashed"

			if rapid.Bool().Draw(t, "hashed") {
				// differs only in content the hash covers: a distinct message
				kind = "append-variant-hashed"
				v.HV = (base.HV + rapid.IntRange(1, nHV-1).Draw(t, "hv")) % nHV
			} else {
				// differs only in content the hash does not cover: the same message
				max := nUV - 2
				if base.Multi {
					max = nUV - 1
				}

				v.UV = (base.UV + rapid.IntRange(1, max).Draw(t, "uv")) % (max + 1)
			}

			e.doAppend(kind, e.pickBox(t), e.register(v), e.drawPlan(t))
		},
		"appendFetched": func(t *rapid.T) {
			// bytes exactly as the server hands them out (with its id line), e.g. a client copying by FETCH + APPEND
			var cands []string

			for _, box := range e.boxes {
				for _, x := range e.cur[box] {
					cands = append(cands, x.raw)
				}
			}

			if len(cands) == 0 {
				t.Skip("no message in an ordinary mailbox")
			}

			lit := cands[rapid.IntRange(0, len(cands)-1).Draw(t, "msg")]
			e.reg[lit] = e.reg[stripIDs(lit)]
			e.doAppend("append-fetched", e.pickBox(t), lit, e.drawPlan(t))
		},
		"copyMove": func(t *rapid.T) {
			var srcs []string

			for _, box := range e.allBoxes() {
				if len(e.cur[box]) > 0 {
					srcs = append(srcs, box)

					if box == recovery {
						srcs = append(srcs, box, box) // bias towards the recovery mailbox
					}
				}
			}

			if len(srcs) == 0 {
				t.Skip("all mailboxes empty")
			}

			src := srcs[rapid.IntRange(0, len(srcs)-1).Draw(t, "src")]
			dst := e.pickBox(t)
			move := rapid.Bool().Draw(t, "move")
			view := e.cur[src]

			lo := rapid.IntRange(0, len(view)-1).Draw(t, "lo")
			hi := lo

			if rapid.IntRange(0, 2).Draw(t, "range") == 0 {
				hi = rapid.IntRange(lo, len(view)-1).Draw(t, "hi")
			}

			sel := view[lo : hi+1]
			set := strconv.Itoa(int(sel[0].uid))

			if len(sel) > 1 {
				set = fmt.Sprintf("%d:%d", sel[0].uid, sel[len(sel)-1].uid)
			}

			plan := steered(e.drawPlan(t), move && src == recovery)

			if r := e.s.Select(src, false); !r.OK() {
				e.fail("SELECT %q refused: %v", src, r)
			}

			verb := "COPY"
			if move {
				verb = "MOVE"
			}

			e.in("UID %s %s %s->%s plan=%s", verb, set, src, dst, planString(plan))
			e.arm(plan)
			r := e.s.Do(fmt.Sprintf("UID %s %s %s", verb, set, bed.Quote(dst)))
			kindOfFail, _ := e.f.firstFail()
			calls := e.f.calls()
			e.arm(nil)

			from := "ordinary"
			if src == recovery {
				from = "recovery"
			}

			e.op("UID %s %s from %q to %q [%s] -> %s [%s]", verb, set, src, dst, calls, r.Status, r.Code)
			e.label(fmt.Sprintf("%s-from-%s:%s", strings.ToLower(verb), from, fName[kindOfFail]))

			if r.Err != nil || r.Bye {
				e.fail("%s ended the connection: %v", r.Cmd, r)
			}

			after := fmt.Sprintf("UID %s %s (%q -> %q) [connector calls: %s] -> %s %s", verb, set, src, dst, calls, r.Status, r.Text)
			x := newExpect()

			if !r.OK() {
				if kindOfFail == fOK {
					e.fail("%s: refused although no connector call failed", after)
				}

				e.observe(after, x) // nothing may have changed
				return
			}

			var dstUIDs []uint32

			if f := codeOf(r, "COPYUID"); len(f) == 4 {
				v, _ := strconv.ParseUint(f[1], 10, 32)
				if uint32(v) != e.validity[dst] {
					e.fail("%s: COPYUID names UIDVALIDITY %d, mailbox %s has %d", after, v, dst, e.validity[dst])
				}

				srcUIDs := parseSet(f[2])
				dstUIDs = parseSet(f[3])

				if len(srcUIDs) != len(sel) || len(dstUIDs) != len(sel) {
					e.fail("%s: COPYUID [%s] does not list %d messages", after, r.Code, len(sel))
				}
			}

			for i, m := range sel {
				w := want{what: fmt.Sprintf("the message of uid %d of %q", m.uid, src)}
				if dstUIDs != nil {
					w.uid = dstUIDs[i]
				}

				if src == recovery {
					// imported as a new message: exact bytes behind a fresh id line
					w.afterID = m.raw

					if move {
						x.remove(recovery, m.uid)
					}
				} else {
					w.exact = m.raw
					id, _ := leadingID(m.raw)

					// an instance already in the destination is replaced (TestCopySameMBox, TestMoveDuplicate)
					for _, p := range e.cur[dst] {
						if got, _ := leadingID(p.raw); got == id {
							x.remove(dst, p.uid)
						}
					}

					if move {
						x.remove(src, m.uid)
					}
				}

				x.add[dst] = append(x.add[dst], w)
			}

			if move && src == recovery {
				e.nontrivial = true
				e.label("moved-out-of-recovery")
			}

			e.observe(after, x)
		},
		"expungeRecovery": func(t *rapid.T) {
			// what gluon lets users do inside the recovery mailbox: STORE \Deleted + EXPUNGE (TestRecoveryMBoxCanBeExpunged)
			view := e.cur[recovery]
			if len(view) == 0 {
				t.Skip("recovery mailbox empty")
			}

			m := view[rapid.IntRange(0, len(view)-1).Draw(t, "msg")]

			if r := e.s.Select(recovery, false); !r.OK() {
				e.fail("SELECT %q refused: %v", recovery, r)
			}

			plan := e.drawPlan(t)
			e.arm(plan) // no connector call is expected; a schedule must make no difference

			r1 := e.s.Do(fmt.Sprintf(`UID STORE %d +FLAGS (\Deleted)`, m.uid))
			if !r1.OK() {
				e.fail(`UID STORE +FLAGS (\Deleted) in %q refused: %v`, recovery, r1)
			}

			how := []string{"EXPUNGE", fmt.Sprintf("UID EXPUNGE %d", m.uid), "CLOSE"}[rapid.IntRange(0, 2).Draw(t, "how")]
			r2 := e.s.Do(how)
			calls := e.f.calls()
			e.arm(nil)

			if how == "CLOSE" && r2.OK() {
				e.s.Selected = ""
			}

			e.in("expunge recovery uid %d %s plan=%s", m.uid, how, planString(plan))
			e.op("expunge uid %d of recovery with %s [%s] -> %s", m.uid, how, calls, r2.Status)
			e.label("expunge-recovery:" + strings.Fields(how)[0])

			if !r2.OK() {
				e.fail("%s in %q refused: %v", how, recovery, r2)
			}

			x := newExpect()
			x.remove(recovery, m.uid)
			e.observe(fmt.Sprintf("STORE \\Deleted + %s of uid %d in %q", how, m.uid, recovery), x)
		},
		"mutateRecovery": func(t *rapid.T) {
			// every client attempt to append to / create / rename / delete / copy or move into the recovery mailbox
			name := caseVariant(t)
			q := bed.Quote(name)
			plan := e.drawPlan(t)

			var (
				r    *imapc.Result
				kind string
			)

			switch k := rapid.IntRange(0, 7).Draw(t, "kind"); k {
			case 0:
				kind = "append"
				lit := e.register(e.newSpec(t))
				e.arm(plan)
				r = e.s.DoParts(imapc.T("APPEND "+q+" "), imapc.L([]byte(lit)))
			case 1:
				kind = "create"
				e.arm(plan)
				r = e.s.Do("CREATE " + q)
			case 2:
				kind = "create-inferior"
				e.arm(plan)
				r = e.s.Do("CREATE " + bed.Quote(name+"/sub"))
			case 3:
				kind = "rename-from"
				e.arm(plan)
				r = e.s.Do("RENAME " + q + " Elsewhere")
			case 4:
				kind = "rename-to"
				e.arm(plan)
				r = e.s.Do("RENAME " + e.boxes[len(e.boxes)-1] + " " + q)
			case 5:
				kind = "delete"
				e.arm(plan)
				r = e.s.Do("DELETE " + q)
			default:
				var srcs []string

				for _, box := range e.allBoxes() {
					if len(e.cur[box]) > 0 {
						srcs = append(srcs, box)
					}
				}

				if len(srcs) == 0 {
					t.Skip("all mailboxes empty")
				}

				src := srcs[rapid.IntRange(0, len(srcs)-1).Draw(t, "src")]
				verb := []string{"COPY", "MOVE"}[k-6]
				kind = strings.ToLower(verb) + "-into"

				if rs := e.s.Select(src, false); !rs.OK() {
					e.fail("SELECT %q refused: %v", src, rs)
				}

				e.arm(plan)
				r = e.s.Do(fmt.Sprintf("UID %s %d %s", verb, e.cur[src][0].uid, q))
			}

			calls := e.f.calls()
			e.arm(nil)
			e.in("%s plan=%s", r.Cmd, planString(plan))
			e.op("%s [%s] -> %s", r.Cmd, calls, r.Status)
			e.label("refused-" + kind)

			if r.Err != nil || r.Bye {
				e.fail("%s ended the connection: %v", r.Cmd, r)
			}

			if r.OK() {
				e.fail("client command %s on the recovery mailbox was answered OK", r.Cmd)
			}

			if calls != "" {
				e.fail("client command %s on the recovery mailbox was refused but reached the remote: %s", r.Cmd, calls)
			}

			e.observe(r.Cmd+" -> "+r.Status+" "+r.Text, nil)
		},
		"list": func(t *rapid.T) {
			nonEmpty := len(e.cur[recovery]) > 0
			pat := []string{`%`, `Rec*`, `"Recovered Messages"`, `R%`, `*Messages`, `"Recovered Messages*"`, `"Recovered Messages/%"`}[rapid.IntRange(0, 6).Draw(t, "pattern")]
			verb := "LIST"

			if rapid.IntRange(0, 3).Draw(t, "lsub") == 0 {
				verb = "LSUB"
			}

			names := e.listNames(fmt.Sprintf(`%s "" %s`, verb, pat))
			listed := false

			for _, n := range names {
				if n == recovery {
					listed = true
				} else if strings.HasPrefix(strings.ToLower(n), strings.ToLower(recovery)) {
					e.fail("%s \"\" %s lists %q", verb, pat, n)
				}
			}

			e.in("%s %s", verb, pat)
			e.op("%s %s -> listed=%v (non-empty=%v)", verb, pat, listed, nonEmpty)
			e.label(strings.ToLower(verb) + "-pattern")

			matches := pat != `"Recovered Messages/%"`

			switch {
			case listed && !nonEmpty:
				e.fail("%s \"\" %s lists %q while it is empty", verb, pat, recovery)
			case verb == "LIST" && matches && nonEmpty && !listed:
				e.fail("%s \"\" %s does not list %q while it holds %d messages", verb, pat, recovery, len(e.cur[recovery]))
			case listed && !matches:
				e.fail("%s \"\" %s lists %q, which the pattern does not match", verb, pat, recovery)
			}
		},
		"restart": func(t *rapid.T) {
			if e.restarts >= 2 {
				t.Skip("enough restarts")
			}

			e.restarts++
			e.logout()

			if err := e.b.Restart(); err != nil {
				if infraErr(err) {
					t.Fatalf("%srestart: %v", infraPrefix(err), err)
				}

				e.fail("restart: %v", err)
			}

			e.login()
			e.in("restart")
			e.op("restart")
			e.label("restart")
			e.observe("restart", nil)
			e.crossCheck("restart")
		},
	}

	// weights: the rules the non-triviality rule is about are drawn twice as often
	actions["appendRepeat2"] = actions["appendRepeat"]
	actions["copyMove2"] = actions["copyMove"]

	t.Repeat(actions)

	e.crossCheck("the last step")

	labels := make([]string, 0, len(e.labels))
	for l := range e.labels {
		labels = append(labels, l)
	}

	sort.Strings(labels)
	ev.Case(e.nontrivial, ev.Hash(len(e.boxes), strings.Join(e.inputs, ";")), labels...)

	if ev.WantSample() {
		ev.Sample(e.ops)
	}
}

func TestC20Recovery(t *testing.T) {
	ev.Checks(150, 600)
	rapid.Check(t, run)
}
