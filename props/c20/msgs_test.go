package c20

import (
	"encoding/base64"
	"fmt"
	"regexp"
	"strings"
)

// A message of this check is described by a spec. (base, hv, multi) is its *identity*: two specs of different
// identity differ in content that rfc822.GetMessageHash documents as hashed (Subject, the addresses of To / Cc, the
// Content-Type of a leaf part, the decoded body of a part); two specs of the same identity differ only in content
// that it documents as *not* taken into account (other header fields: Date, Message-Id, X-Variant; the transfer
// encoding of a text part: the hash is over the decoded body; the boundary string of a multipart, which is neither
// a leaf Content-Type nor a body). Deliberately not used, because the doc comment and the code disagree or are
// silent: display names of addresses, trailing white space of a body, Reply-To / In-Reply-To.
type spec struct {
	Base  int  `json:"base"`
	HV    int  `json:"hashed_variation"`   // 0 none, 1 +Cc, 2 body text differs, 3 text/html instead of text/plain, 4 subject differs, 5 To address differs, 6/7 two To addresses that differ in the first one only, 8 two Cc addresses (first one differs from 1's)
	Multi bool `json:"multipart"`          // multipart/mixed with a text part and an attachment
	UV    int  `json:"unhashed_variation"` // 0 none, 1 X-Variant header, 2 Date differs, 3 Message-Id added, 4 text body base64, 5 text body quoted-printable, 6 other multipart boundary (Multi only)

	// Damaged: the text part is declared base64 but its body is not base64 (a truncated / damaged message). APPEND
	// accepts it, rfc822.GetMessageHash fails on it: such a message cannot be recognised as a duplicate, it must be kept
	// all the same.
	Damaged bool `json:"damaged_base64"`
}

const (
	nHV = 9
	nUV = 7
)

func (s spec) identity() string {
	m := ""
	if s.Multi {
		m = "/multi"
	}

	if s.Damaged {
		m += "/damaged"
	}

	return fmt.Sprintf("m%d/h%d%s", s.Base, s.HV, m)
}

func (s spec) String() string { return fmt.Sprintf("%s/u%d", s.identity(), s.UV) }

func qp(text string) string {
	// every space as =20, line breaks stay hard line breaks
	return strings.ReplaceAll(text, " ", "=20")
}

// build is the fixed expander spec -> bytes.
func build(s spec) string {
	var sb strings.Builder

	marker := fmt.Sprintf("m%d", s.Base)

	sb.WriteString("From: Alice <alice@example.com>\r\n")

	switch s.HV {
	case 5:
		sb.WriteString("To: Bob <bob2@example.com>\r\n")
	case 6:
		// several recipients: 6 and 7 differ in the first one only and share the last one
		sb.WriteString("To: Ann <ann@example.com>, Bob <bob@example.com>\r\n")
	case 7:
		sb.WriteString("To: Dan <dan@example.com>, Bob <bob@example.com>\r\n")
	default:
		sb.WriteString("To: Bob <bob@example.com>\r\n")
	}

	if s.HV == 1 {
		sb.WriteString("Cc: Carol <carol@example.com>\r\n")
	}

	if s.HV == 8 {
		sb.WriteString("Cc: Erin <erin@example.com>, Carol <carol@example.com>\r\n")
	}

	if s.HV == 4 {
		sb.WriteString("Subject: verif " + marker + " bis\r\n")
	} else {
		sb.WriteString("Subject: verif " + marker + "\r\n")
	}

	if s.UV == 2 {
		sb.WriteString("Date: Tue, 03 Jan 2006 16:05:06 +0100\r\n")
	} else {
		sb.WriteString("Date: Mon, 02 Jan 2006 15:04:05 +0000\r\n")
	}

	if s.UV == 3 {
		sb.WriteString("Message-Id: <" + marker + ".variant@verif.example>\r\n")
	}

	if s.UV == 1 {
		sb.WriteString("X-Variant: one\r\n")
	}

	sb.WriteString("X-Verif-Marker: " + marker + "\r\n")

	text := "body of " + marker + " line one\r\nsecond line\r\n"
	if s.HV == 2 {
		text = "body of " + marker + " line one\r\nsecond line changed\r\n"
	}

	ctype := "text/plain; charset=utf-8"
	if s.HV == 3 {
		ctype = "text/html; charset=utf-8"
	}

	cte, enc := "7bit", text

	switch s.UV {
	case 4:
		cte, enc = "base64", base64.StdEncoding.EncodeToString([]byte(text))+"\r\n"
	case 5:
		cte, enc = "quoted-printable", qp(text)
	}

	if s.Damaged {
		cte, enc = "base64", "Ym9keSBvZiA!!! "+marker+" is cut off here\r\n"
	}

	if !s.Multi {
		sb.WriteString("Content-Type: " + ctype + "\r\n")
		sb.WriteString("Content-Transfer-Encoding: " + cte + "\r\n")
		sb.WriteString("\r\n")
		sb.WriteString(enc)

		return sb.String()
	}

	boundary := "verif-boundary-a"
	if s.UV == 6 {
		boundary = "other-boundary-b"
	}

	sb.WriteString("Mime-Version: 1.0\r\n")
	sb.WriteString("Content-Type: multipart/mixed; boundary=\"" + boundary + "\"\r\n")
	sb.WriteString("\r\n")
	sb.WriteString("--" + boundary + "\r\n")
	sb.WriteString("Content-Type: " + ctype + "\r\n")
	sb.WriteString("Content-Transfer-Encoding: " + cte + "\r\n")
	sb.WriteString("\r\n")
	sb.WriteString(enc)
	sb.WriteString("--" + boundary + "\r\n")
	sb.WriteString("Content-Type: application/octet-stream; name=\"a.bin\"\r\n")
	sb.WriteString("Content-Disposition: attachment; filename=\"a.bin\"\r\n")
	sb.WriteString("Content-Transfer-Encoding: base64\r\n")
	sb.WriteString("\r\n")
	sb.WriteString(base64.StdEncoding.EncodeToString([]byte("attachment of "+marker)) + "\r\n")
	sb.WriteString("--" + boundary + "--\r\n")

	return sb.String()
}

// idLine is the header line the server puts in front of every message it stores in an ordinary mailbox
// (internal/ids/header.go InternalIDKey; rfc822.SetHeaderValueNoMemCopy inserts it before the first header field).
var idLine = regexp.MustCompile(`^X-Pm-Gluon-Id: [0-9a-fA-F]{8}-[0-9a-fA-F]{4}-[0-9a-fA-F]{4}-[0-9a-fA-F]{4}-[0-9a-fA-F]{12}\r\n`)

// leadingID returns the first id line of raw ("" if raw does not start with one) and the rest.
func leadingID(raw string) (id, rest string) {
	if loc := idLine.FindStringIndex(raw); loc != nil {
		return raw[:loc[1]], raw[loc[1]:]
	}

	return "", raw
}

// stripIDs removes all leading id lines (a recovered literal that itself carried one gets a second one in front when
// it is imported into an ordinary mailbox).
func stripIDs(raw string) string {
	for {
		id, rest := leadingID(raw)
		if id == "" {
			return raw
		}

		raw = rest
	}
}
