package c15

import (
	"fmt"
	"strings"
	"testing"

	"verif/internal/bed"
	"verif/internal/imapc"
	"verif/internal/kf"
)

// Scripted regressions (no rapid) of the defects the C15 search found on the unchanged tree. Each one: reproduces and
// listed -> KNOWN-FINDING line, pass; reproduces and not listed -> fail; does not reproduce -> pass silently.

type script struct {
	t *testing.T
	b *bed.Bed
	s *bed.Session
}

func newScript(t *testing.T) *script {
	t.Helper()

	b, err := bed.Start(bed.Options{}, bed.UserSpec{Name: "user", Pass: "pass"})
	if err != nil {
		t.Fatal(err)
	}

	t.Cleanup(b.Destroy)

	s, err := b.Login("s", b.Users[0])
	if err != nil {
		t.Fatal(err)
	}

	t.Cleanup(s.Logout)

	return &script{t: t, b: b, s: s}
}

func (sc *script) append(args, literal string) {
	sc.t.Helper()

	if r := sc.s.DoParts(imapc.T("APPEND INBOX "+args), imapc.Ls(literal)); !r.OK() {
		sc.t.Fatalf("%v\n%s", r, sc.b.Hist)
	}
}

// search returns the status and the numbers of the untagged SEARCH response.
func (sc *script) search(cmd string) (string, string) {
	sc.t.Helper()

	r := sc.s.Do(cmd)

	nums, _, err := parseSearch(r)
	if err != nil {
		sc.t.Fatalf("%v\n%s", err, sc.b.Hist)
	}

	return r.Status, strings.Trim(fmt.Sprint(nums), "[]")
}

func (sc *script) verdict(id, what string, reproduced bool) {
	sc.t.Helper()

	if !reproduced {
		return
	}

	if !kf.Report(id) {
		sc.t.Fatalf("C15 violated (%s, not listed as known): %s\n%s\n==> C15 violated (%s): %s", id, what, sc.b.Hist, id, what)
	}
}

const plainMsg = "From: alice@example.com\r\nDate: Wed, 01 Jan 2020 12:00:00 +0000\r\nSubject: hello\r\n\r\nbody\r\n"

// RFC 3501 6.4.4 HEADER: "If the string to search is zero-length, this matches all messages that have a header line
// with the specified field-name regardless of the contents."
func TestKnown_C15_header_empty_value_matches_absent_field(t *testing.T) {
	sc := newScript(t)
	sc.append("", plainMsg)
	sc.append("", "X-Tag: one\r\n"+plainMsg)
	sc.s.Select("INBOX", false)

	st, got := sc.search(`SEARCH HEADER X-Tag ""`)
	sc.verdict(KfHeaderEmptyAbsent, fmt.Sprintf(`messages 1 (no X-Tag field) and 2 (X-Tag: one): SEARCH HEADER X-Tag "" -> %s [%s], want OK [2]`, st, got), st != "OK" || got != "2")
}

// HEADER: "Messages that have a header with the specified field-name and that contains the specified string in the
// text of the header": a field that occurs twice has two such headers.
func TestKnown_C15_header_first_occurrence_only(t *testing.T) {
	sc := newScript(t)
	sc.append("", "X-Tag: one\r\nX-Tag: two\r\n"+plainMsg)
	sc.s.Select("INBOX", false)

	st, got := sc.search(`SEARCH HEADER X-Tag two`)
	sc.verdict(KfHeaderFirstOnly, fmt.Sprintf(`message with "X-Tag: one" and "X-Tag: two": SEARCH HEADER X-Tag two -> %s [%s], want OK [1]`, st, got), st != "OK" || got != "1")
}

// SINCE d and BEFORE d must partition the mailbox whatever day the server assigns to a message.
func TestKnown_C15_since_uses_stored_zone(t *testing.T) {
	sc := newScript(t)
	sc.append(`"01-Jan-2020 23:30:00 -0200" `, plainMsg) // = 02-Jan-2020 01:30 UTC
	sc.append(`"02-Jan-2020 00:30:00 +0200" `, plainMsg) // = 01-Jan-2020 22:30 UTC
	sc.s.Select("INBOX", false)

	st1, since := sc.search(`SEARCH SINCE 2-Jan-2020`)
	st2, before := sc.search(`SEARCH BEFORE 2-Jan-2020`)
	_, on := sc.search(`SEARCH ON 2-Jan-2020`)

	what := fmt.Sprintf(`INTERNALDATEs "02-Jan-2020 01:30:00 +0000" (appended as 01-Jan 23:30 -0200) and "01-Jan-2020 22:30:00 +0000" (appended as 02-Jan 00:30 +0200): `+
		`SINCE 2-Jan-2020 -> [%s], BEFORE 2-Jan-2020 -> [%s], ON 2-Jan-2020 -> [%s]; want SINCE [1], BEFORE [2], ON [1] (the day reported by FETCH), `+
		`in any case SINCE d and BEFORE d complementary`, since, before, on)
	sc.verdict(KfSinceZone, what, st1 != "OK" || st2 != "OK" || since != "1" || before != "2")
}

// RFC 3501 6.4.8 / 9 (seq-number): a UID that does not exist is ignored without an error; on an empty view no UID
// exists, so the search matches nothing.
func TestKnown_C16_search_uid_key_empty_view(t *testing.T) {
	sc := newScript(t)
	sc.s.Select("INBOX", false)

	st, got := sc.search(`UID SEARCH UID 1:*`)
	st2, got2 := sc.search(`SEARCH NOT UID 5`)
	sc.verdict(KfUIDKeyEmptyView, fmt.Sprintf(`empty mailbox: UID SEARCH UID 1:* -> %s [%s], SEARCH NOT UID 5 -> %s [%s]; want OK with an empty result`, st, got, st2, got2),
		st != "OK" || got != "" || st2 != "OK" || got2 != "")
}
