package c15

import (
	"fmt"
	"strings"
	"time"

	"pgregory.net/rapid"
)

// ---- rapid helpers -----------------------------------------------------------------------------------------------

func intn(t *rapid.T, label string, lo, hi int) int { return rapid.IntRange(lo, hi).Draw(t, label) }

func chance(t *rapid.T, label string, num, den int) bool { return intn(t, label, 0, den-1) < num }

func pick[T any](t *rapid.T, label string, xs []T) T { return xs[intn(t, label, 0, len(xs)-1)] }

// ---- what the generator knows about a message --------------------------------------------------------------------

// field is one header field as written: Name ":" Raw CRLF. Raw may contain folds (CRLF followed by WSP).
type field struct {
	Name string
	Raw  string
}

// civil is a calendar day.
type civil struct{ Y, M, D int }

func civilOf(t time.Time) civil { y, m, d := t.Date(); return civil{y, int(m), d} }

func (c civil) time() time.Time { return time.Date(c.Y, time.Month(c.M), c.D, 0, 0, 0, 0, time.UTC) }

func (c civil) cmp(o civil) int {
	switch {
	case c.Y != o.Y:
		return sign(c.Y - o.Y)
	case c.M != o.M:
		return sign(c.M - o.M)
	default:
		return sign(c.D - o.D)
	}
}

func sign(x int) int {
	switch {
	case x < 0:
		return -1
	case x > 0:
		return 1
	}

	return 0
}

func (c civil) add(days int) civil { return civilOf(c.time().AddDate(0, 0, days)) }

func (c civil) String() string { return fmt.Sprintf("%04d-%02d-%02d", c.Y, c.M, c.D) }

// gmsg is a generated message with everything the oracle may use.
type gmsg struct {
	Idx    int
	Fields []field
	Body   string   // raw body (everything behind the empty line)
	Parts  []string // text contents of the parts of a multipart (nil for a single-part message)
	Lit    []byte

	Flags    []string  // as given to APPEND
	HasDT    bool      // APPEND carried a date-time
	AppendDT time.Time // in the zone that was written
	Sent     civil     // calendar day written in the Date: header (its own zone)
	SentUTC  civil     // the same instant's day in UTC (used only to bias search dates)
	Eight    bool      // contains 8-bit (UTF-8) text
}

// ---- vocabulary --------------------------------------------------------------------------------------------------

var (
	people = []struct{ name, addr string }{
		{"Alice Archer", "alice@example.com"},
		{"Bob Baker", "bob@example.org"},
		{"Carol Chen", "carol@mail.test"},
		{"Dave Dunn", "dave@example.com"},
		{"Eve", "eve@sub.example.net"},
	}
	subjectWords = []string{"alpha", "beta", "gamma", "delta", "Report", "RE:", "invoice", "Needle", "xyzzy", "meeting", "Q3", "(draft)", "a+b=c"}
	bodyWords    = []string{"alpha", "beta", "lorem", "ipsum", "xyzzy", "plugh", "quux", "Needle", "hello", "world", "dolor", "Alice", "example.com", "Subject:", "--"}
	eightWords   = []string{"héllo", "wörld", "日本語"}
	tagWords     = []string{"one", "two", "three", "red", "green", "alpha"}
	keywordPool  = []string{"kw1", "$Label1", "Work", "todo", "NonJunk"}
	systemPool   = []string{`\Seen`, `\Answered`, `\Flagged`, `\Deleted`, `\Draft`}
	// zones as seconds east of UTC
	zonePool = []int{0, 0, 3600, -3600, 7200, -12600, 19800, 20700, 43200, 50400, -43200, -28800, 34200, -7200}
	clocks   = [][3]int{{0, 0, 0}, {0, 0, 1}, {0, 29, 59}, {1, 0, 0}, {2, 0, 0}, {11, 59, 59}, {12, 0, 0}, {22, 0, 0}, {23, 30, 0}, {23, 59, 59}}
	dayPool  = []civil{{2019, 12, 31}, {2020, 1, 1}, {2020, 1, 2}, {2020, 2, 28}, {2020, 2, 29}, {2020, 3, 1}, {2021, 6, 15}, {2021, 6, 16}}
)

func flipCase(t *rapid.T, label, s string) string {
	switch intn(t, label+"-case", 0, 3) {
	case 0:
		return s
	case 1:
		return asciiMap(s, func(b byte) byte {
			if b >= 'A' && b <= 'Z' {
				return b + 32
			}

			return b
		})
	case 2:
		return asciiMap(s, func(b byte) byte {
			if b >= 'a' && b <= 'z' {
				return b - 32
			}

			return b
		})
	default:
		mask := intn(t, label+"-mask", 0, 1<<16-1)
		b := []byte(s)

		for i := range b {
			if mask>>(i%16)&1 == 1 && (b[i] >= 'A' && b[i] <= 'Z' || b[i] >= 'a' && b[i] <= 'z') {
				b[i] ^= 0x20
			}
		}

		return string(b)
	}
}

func asciiMap(s string, f func(byte) byte) string {
	b := []byte(s)
	for i := range b {
		b[i] = f(b[i])
	}

	return string(b)
}

// lower is ASCII-only lower-casing (RFC 3501: matching is case-insensitive for US-ASCII letters).
func lower(s string) string {
	return asciiMap(s, func(b byte) byte {
		if b >= 'A' && b <= 'Z' {
			return b + 32
		}

		return b
	})
}

// ---- drawing -----------------------------------------------------------------------------------------------------

func drawWords(t *rapid.T, label string, vocab []string, lo, hi int) []string {
	n := intn(t, label+"-n", lo, hi)
	out := make([]string, n)

	for i := range out {
		out[i] = pick(t, label, vocab)
	}

	return out
}

// foldValue writes a logical value (words separated by single spaces) as the raw text behind the colon, with drawn
// leading white space and drawn folds at the spaces.
func foldValue(t *rapid.T, label string, words []string) string {
	var sb strings.Builder

	sb.WriteString(pick(t, label+"-lead", []string{" ", " ", " ", " ", "", "  ", "\t"}))

	for i, w := range words {
		if i > 0 {
			switch intn(t, label+"-fold", 0, 11) {
			case 0, 1:
				sb.WriteString("\r\n ")
			case 2:
				sb.WriteString("\r\n\t")
			case 3:
				sb.WriteString(" \r\n ")
			case 4:
				sb.WriteString("\r\n   ")
			case 5:
				sb.WriteString("  ")
			default:
				sb.WriteString(" ")
			}
		}

		sb.WriteString(w)
	}

	return sb.String()
}

func drawMailbox(t *rapid.T, label string) string {
	p := pick(t, label, people)

	switch intn(t, label+"-form", 0, 4) {
	case 0:
		return p.addr
	case 1:
		parts := strings.SplitN(p.name, " ", 2)
		if len(parts) == 2 {
			return fmt.Sprintf(`"%s, %s" <%s>`, parts[1], parts[0], p.addr)
		}

		return fmt.Sprintf(`"%s" <%s>`, p.name, p.addr)
	case 2:
		return "<" + p.addr + ">"
	default:
		return p.name + " <" + p.addr + ">"
	}
}

// addrWords returns an address list as "words" for foldValue: folds only between list members.
func drawAddrList(t *rapid.T, label string, lo, hi int) []string {
	n := intn(t, label+"-n", lo, hi)
	out := make([]string, n)

	for i := range out {
		out[i] = drawMailbox(t, label)
		if i < n-1 {
			out[i] += ","
		}
	}

	return out
}

func zoneString(off int) string {
	s := "+"
	if off < 0 {
		s, off = "-", -off
	}

	return fmt.Sprintf("%s%02d%02d", s, off/3600, off%3600/60)
}

func drawDateTime(t *rapid.T, label string) time.Time {
	d := pick(t, label+"-day", dayPool)
	c := pick(t, label+"-clock", clocks)
	off := pick(t, label+"-zone", zonePool)

	return time.Date(d.Y, time.Month(d.M), d.D, c[0], c[1], c[2], 0, time.FixedZone("", off))
}

var (
	wdays   = []string{"Sun", "Mon", "Tue", "Wed", "Thu", "Fri", "Sat"}
	monthsT = []string{"", "Jan", "Feb", "Mar", "Apr", "May", "Jun", "Jul", "Aug", "Sep", "Oct", "Nov", "Dec"}
)

// dateHeader writes an RFC 5322 date-time (no obsolete forms): [day-of-week ","] day month year hh:mm[:ss] zone.
func dateHeader(t *rapid.T, label string, dt time.Time) string {
	var sb strings.Builder

	if chance(t, label+"-dow", 2, 3) {
		sb.WriteString(wdays[dt.Weekday()] + ", ")
	}

	if chance(t, label+"-2d", 1, 2) {
		fmt.Fprintf(&sb, "%02d", dt.Day())
	} else {
		fmt.Fprintf(&sb, "%d", dt.Day())
	}

	fmt.Fprintf(&sb, " %s %04d %02d:%02d", monthsT[dt.Month()], dt.Year(), dt.Hour(), dt.Minute())

	if dt.Second() != 0 || chance(t, label+"-sec", 1, 2) {
		fmt.Fprintf(&sb, ":%02d", dt.Second())
	}

	_, off := dt.Zone()
	sb.WriteString(" " + zoneString(off))

	return sb.String()
}

func drawFlags(t *rapid.T, label string) []string {
	var out []string

	seen := map[string]bool{}
	add := func(f string) {
		if !seen[strings.ToLower(f)] {
			seen[strings.ToLower(f)] = true

			out = append(out, f)
		}
	}

	for i, n := 0, intn(t, label+"-nsys", 0, 3); i < n; i++ {
		add(flipCase(t, label+"-sys", pick(t, label+"-sys", systemPool)))
	}

	for i, n := 0, intn(t, label+"-nkw", 0, 2); i < n; i++ {
		add(flipCase(t, label+"-kw", pick(t, label+"-kw", keywordPool)))
	}

	return out
}

// drawMessage draws one message.
func drawMessage(t *rapid.T, idx int) *gmsg {
	m := &gmsg{Idx: idx}
	l := fmt.Sprintf("m%d", idx)

	m.Eight = chance(t, l+"-8bit", 1, 4)
	multipart := chance(t, l+"-multipart", 1, 6)

	add := func(name, raw string) { m.Fields = append(m.Fields, field{Name: name, Raw: raw}) }
	name := func(n string) string {
		if chance(t, l+"-hcase", 1, 4) {
			return flipCase(t, l+"-hname", n)
		}

		return n
	}

	// From (exactly one mailbox: APPEND validates the field) and Date (valid) are always there.
	sent := drawDateTime(t, l+"-sent")
	m.Sent, m.SentUTC = civilOf(sent), civilOf(sent.UTC())

	type hf struct{ name, raw string }

	var hs []hf

	hs = append(hs, hf{name("From"), foldValue(t, l+"-from", []string{drawMailbox(t, l+"-from")})})
	hs = append(hs, hf{name("Date"), " " + dateHeader(t, l+"-date", sent)})

	if chance(t, l+"-has-to", 4, 5) {
		hs = append(hs, hf{name("To"), foldValue(t, l+"-to", drawAddrList(t, l+"-to", 1, 3))})
	}

	if chance(t, l+"-has-cc", 1, 3) {
		hs = append(hs, hf{name("Cc"), foldValue(t, l+"-cc", drawAddrList(t, l+"-cc", 1, 2))})
	}

	if chance(t, l+"-has-bcc", 1, 4) {
		hs = append(hs, hf{name("Bcc"), foldValue(t, l+"-bcc", drawAddrList(t, l+"-bcc", 1, 2))})
	}

	if chance(t, l+"-has-subject", 9, 10) {
		words := drawWords(t, l+"-subject", subjectWords, 0, 5)
		if m.Eight && chance(t, l+"-subject8", 1, 3) {
			words = append(words, pick(t, l+"-subject8", eightWords))
		}

		hs = append(hs, hf{name("Subject"), foldValue(t, l+"-subject", words)})
	}

	for i, n := 0, intn(t, l+"-ntag", 0, 3); i < n; i++ {
		hs = append(hs, hf{name("X-Tag"), foldValue(t, l+"-tag", drawWords(t, l+"-tag", tagWords, 0, 3))})
	}

	if chance(t, l+"-has-comments", 1, 4) {
		hs = append(hs, hf{name("Comments"), foldValue(t, l+"-comments", drawWords(t, l+"-comments", bodyWords, 1, 6))})
	}

	if chance(t, l+"-has-empty", 1, 6) {
		hs = append(hs, hf{"X-Empty", ""})
	}

	if chance(t, l+"-has-msgid", 1, 2) {
		hs = append(hs, hf{name("Message-ID"), fmt.Sprintf(" <%d.%d@verif.test>", idx, intn(t, l+"-msgid", 0, 99))})
	}

	// drawn order of the fields (Fisher-Yates)
	for i := len(hs) - 1; i > 0; i-- {
		j := intn(t, l+"-order", 0, i)
		hs[i], hs[j] = hs[j], hs[i]
	}

	for _, h := range hs {
		add(h.name, h.raw)
	}

	textLines := func(label string, lo, hi int) string {
		var sb strings.Builder

		for i, n := 0, intn(t, label+"-lines", lo, hi); i < n; i++ {
			words := drawWords(t, label+"-line", bodyWords, 0, 6)
			if m.Eight && chance(t, label+"-w8", 1, 2) {
				words = append(words, pick(t, label+"-w8", eightWords))
			}

			if chance(t, label+"-pad", 1, 10) {
				words = append(words, strings.Repeat("x", intn(t, label+"-padlen", 1, 300)))
			}

			sb.WriteString(strings.Join(words, " ") + "\r\n")
		}

		return sb.String()
	}

	if multipart {
		bnd := fmt.Sprintf("bnd-%d-%d", idx, intn(t, l+"-bnd", 0, 9))
		add("MIME-Version", " 1.0")
		add("Content-Type", fmt.Sprintf(` multipart/mixed; boundary="%s"`, bnd))

		var sb strings.Builder

		for i, n := 0, intn(t, l+"-nparts", 1, 3); i < n; i++ {
			txt := textLines(fmt.Sprintf("%s-p%d", l, i), 0, 3)
			m.Parts = append(m.Parts, txt)
			cs := "us-ascii"

			if m.Eight {
				cs = "utf-8"
			}

			sb.WriteString("--" + bnd + "\r\nContent-Type: text/plain; charset=" + cs + "\r\n")

			if m.Eight {
				sb.WriteString("Content-Transfer-Encoding: 8bit\r\n")
			}

			sb.WriteString("\r\n" + txt + "\r\n")
		}

		sb.WriteString("--" + bnd + "--\r\n")
		m.Body = sb.String()
	} else {
		if m.Eight {
			add("MIME-Version", " 1.0")
			add("Content-Type", " text/plain; charset=utf-8")
			add("Content-Transfer-Encoding", " 8bit")
		}

		m.Body = textLines(l+"-body", 0, 6)
	}

	var sb strings.Builder

	for _, f := range m.Fields {
		sb.WriteString(f.Name + ":" + f.Raw + "\r\n")
	}

	sb.WriteString("\r\n" + m.Body)
	m.Lit = []byte(sb.String())

	m.Flags = drawFlags(t, l+"-flags")

	if chance(t, l+"-has-dt", 9, 10) {
		m.HasDT, m.AppendDT = true, drawDateTime(t, l+"-dt")
	}

	return m
}

// ---- readings of the message text --------------------------------------------------------------------------------
//
// RFC 3501 6.4.4 leaves open how exactly header text is normalised before matching (white space around folds, leading
// white space behind the colon). A text key is judged only where all plausible readings agree.

// readings returns the lower-cased readings of a header field's text.
func (f field) readings() []string {
	rfc := strings.ReplaceAll(f.Raw, "\r\n", "") // RFC 5322 unfolding: the CRLF in front of WSP is removed
	lines := strings.Split(f.Raw, "\r\n")

	for i := range lines {
		lines[i] = strings.Trim(lines[i], " \t")
	}

	var keep []string

	for _, l := range lines {
		if l != "" {
			keep = append(keep, l)
		}
	}

	return []string{lower(rfc), lower(strings.Trim(rfc, " \t")), lower(strings.Join(keep, " "))}
}

// canon is the reading used to draw needles from (lines trimmed, joined by one space).
func (f field) canon() string {
	lines := strings.Split(f.Raw, "\r\n")

	var keep []string

	for _, l := range lines {
		if l = strings.Trim(l, " \t"); l != "" {
			keep = append(keep, l)
		}
	}

	return strings.Join(keep, " ")
}
