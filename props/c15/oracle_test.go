package c15

import (
	"fmt"
	"sort"
	"strings"
	"time"

	"github.com/ProtonMail/gluon/imap/command"

	"verif/internal/kf"
)

// Listed known findings of C15 (ids of /verif/known_findings.json). While an id is listed the oracle does not judge
// the region concerned (tri-state "unknown", counted as excluded_known); TestKnown_<id> keeps the minimal input
// under watch.
const (
	// KfHeaderEmptyAbsent: `HEADER f ""` matches messages that have no field f (RFC 3501 6.4.4: "matches all messages
	// that have a header line with the specified field-name").
	KfHeaderEmptyAbsent = "C15-header-empty-value-matches-absent-field"
	// KfHeaderFirstOnly: HEADER looks at the first field of the given name only.
	KfHeaderFirstOnly = "C15-header-first-occurrence-only"
	// KfSinceZone: SINCE compares the calendar day in the zone the APPEND date-time was written in, BEFORE and ON
	// compare in UTC: SINCE d and BEFORE d are neither complementary nor disjoint.
	KfSinceZone = "C15-since-uses-stored-zone"
	// KfUIDKeyEmptyView: a UID search key on an empty view makes SEARCH fail with NO instead of returning nothing.
	// The same defect is seen by C16, which names the entry.
	KfUIDKeyEmptyView = "C16-search-uid-key-empty-view"
)

// tri is a Kleene truth value: the oracle judges a message only where the property text and RFC 3501 fix the answer.
type tri int8

const (
	no tri = iota
	yes
	unknown
)

func (a tri) not() tri {
	switch a {
	case yes:
		return no
	case no:
		return yes
	}

	return unknown
}

func and(a, b tri) tri {
	switch {
	case a == no || b == no:
		return no
	case a == unknown || b == unknown:
		return unknown
	}

	return yes
}

func or(a, b tri) tri { return and(a.not(), b.not()).not() }

func of(b bool) tri {
	if b {
		return yes
	}

	return no
}

// vmsg is one message of the session's view: what the probe reported plus what the generator knows.
type vmsg struct {
	Seq, UID uint32
	Flags    map[string]bool // lower-cased, as the session reports them (including \recent)
	IDate    time.Time       // INTERNALDATE as reported
	IDay     civil           // its calendar day as reported (the server reports UTC)
	Size     int             // RFC822.SIZE as reported
	G        *gmsg
	Prefix   field  // the header field gluon puts in front of the literal (X-Pm-Gluon-Id)
	Full     string // lower-cased literal as the server reports it (prefix + generated literal)
	unfolded string // lower-cased second reading for TEXT: header fields unfolded, MIME framing left out
	bodyAlt  string // lower-cased second reading for BODY (text of the parts)
	body     string
	// Crossing: the APPEND date-time's calendar day in its own zone differs from the day in UTC.
	Crossing bool
}

func (m *vmsg) prepare() {
	g := m.G
	m.body = lower(g.Body)
	m.bodyAlt = m.body

	if g.Parts != nil {
		m.bodyAlt = lower(strings.Join(g.Parts, "\x00"))
	}

	var sb strings.Builder

	for _, f := range append([]field{m.Prefix}, g.Fields...) {
		sb.WriteString(lower(f.Name) + ":" + lower(strings.ReplaceAll(f.Raw, "\r\n", "")) + "\x00")
	}

	sb.WriteString(m.bodyAlt)
	m.unfolded = sb.String()

	if g.HasDT {
		m.Crossing = civilOf(g.AppendDT) != civilOf(g.AppendDT.UTC())
	}
}

// view is the searching session's view.
type view struct {
	Msgs   []*vmsg
	maxUID uint32
}

func (v *view) n() int { return len(v.Msgs) }

// evaluator evaluates key trees over a view.
type evaluator struct {
	v        *view
	excluded map[string]bool // listed findings whose region was touched (-> ev.Excluded)
	ambig    map[string]bool // reasons for "unknown" verdicts (-> labels)
	oor      bool            // a sequence-set key names a number beyond the view (C16's business: BAD is accepted)
	uidKey   bool            // the tree contains a UID key
}

func newEvaluator(v *view) *evaluator {
	return &evaluator{v: v, excluded: map[string]bool{}, ambig: map[string]bool{}}
}

func (e *evaluator) amb(reason string) tri { e.ambig[reason] = true; return unknown }

func (e *evaluator) known(id string) tri { e.excluded[id] = true; return unknown }

// contains judges needle (already lower-cased) against several readings: yes if all contain it, no if none does.
func (e *evaluator) contains(readings []string, needle, reason string) tri {
	n := 0

	for _, r := range readings {
		if strings.Contains(r, needle) {
			n++
		}
	}

	switch n {
	case len(readings):
		return yes
	case 0:
		return no
	}

	return e.amb(reason)
}

func (m *vmsg) fieldsNamed(name string) []field {
	var res []field

	for _, f := range append([]field{m.Prefix}, m.G.Fields...) {
		if strings.EqualFold(f.Name, name) {
			res = append(res, f)
		}
	}

	return res
}

// headerKey evaluates FROM/TO/CC/BCC/SUBJECT (strict=false) and HEADER (strict=true: RFC 3501 defines the
// zero-length value as "field present").
func (e *evaluator) headerKey(m *vmsg, name, value string, strict bool) tri {
	fs := m.fieldsNamed(name)
	needle := lower(value)

	if len(fs) == 0 {
		if needle != "" {
			return no
		}

		if !strict {
			return e.amb("empty-needle-absent-field")
		}

		if kf.Listed(KfHeaderEmptyAbsent) {
			return e.known(KfHeaderEmptyAbsent)
		}

		return no
	}

	if needle == "" {
		return yes
	}

	first := e.contains(fs[0].readings(), needle, "header-whitespace")
	res := first

	for _, f := range fs[1:] {
		res = or(res, e.contains(f.readings(), needle, "header-whitespace"))
	}

	if res != first && kf.Listed(KfHeaderFirstOnly) {
		return e.known(KfHeaderFirstOnly)
	}

	return res
}

func (e *evaluator) seqSet(m *vmsg, set []command.SeqRange) tri {
	n := uint64(e.v.n())
	res := no

	for _, r := range set {
		lo, hi := uint64(r.Begin), uint64(r.End)
		if r.Begin.IsAsterisk() {
			lo = n
		}

		if r.End.IsAsterisk() {
			hi = n
		}

		// A member naming a number beyond the view (any number, `*` included, on an empty view) is not a valid
		// sequence number (RFC 3501 9, seq-number): property C16 demands BAD; what such a member selects if the
		// command is answered nevertheless is not defined, so it is not judged here.
		if n == 0 || lo > n || hi > n || lo == 0 || hi == 0 {
			e.oor = true
			res = or(res, e.amb("seq-member-beyond-view"))

			continue
		}

		if lo > hi {
			lo, hi = hi, lo
		}

		res = or(res, of(uint64(m.Seq) >= lo && uint64(m.Seq) <= hi))
	}

	return res
}

func (e *evaluator) uidSet(m *vmsg, set []command.SeqRange) tri {
	e.uidKey = true
	res := no
	max := uint64(e.v.maxUID)

	for _, r := range set {
		lo, hi := uint64(r.Begin), uint64(r.End)
		star := r.Begin.IsAsterisk() || r.End.IsAsterisk()

		if r.Begin.IsAsterisk() {
			lo = max
		}

		if r.End.IsAsterisk() {
			hi = max
		}

		if lo > hi {
			lo, hi = hi, lo
		}

		in := uint64(m.UID) >= lo && uint64(m.UID) <= hi

		// `n:*` with n above the highest UID: RFC 3501 says the range still contains the highest UID; gluon returns
		// nothing on purpose (property C16 exempts exactly this case).
		if star && r.Begin != r.End && hi > max && uint64(m.UID) == max && in {
			res = or(res, e.amb("uid-range-star-above-max"))
			continue
		}

		res = or(res, of(in))
	}

	return res
}

func (e *evaluator) leaf(k command.SearchKey, m *vmsg) tri {
	flag := func(f string) tri { return of(m.Flags[f]) }

	switch k := k.(type) {
	case *command.SearchKeyAll:
		return yes
	case *command.SearchKeyAnswered:
		return flag(`\answered`)
	case *command.SearchKeyUnanswered:
		return flag(`\answered`).not()
	case *command.SearchKeyDeleted:
		return flag(`\deleted`)
	case *command.SearchKeyUndeleted:
		return flag(`\deleted`).not()
	case *command.SearchKeyDraft:
		return flag(`\draft`)
	case *command.SearchKeyUndraft:
		return flag(`\draft`).not()
	case *command.SearchKeyFlagged:
		return flag(`\flagged`)
	case *command.SearchKeyUnflagged:
		return flag(`\flagged`).not()
	case *command.SearchKeySeen:
		return flag(`\seen`)
	case *command.SearchKeyUnseen:
		return flag(`\seen`).not()
	case *command.SearchKeyRecent:
		return flag(`\recent`)
	case *command.SearchKeyOld:
		return flag(`\recent`).not()
	case *command.SearchKeyNew:
		return and(flag(`\recent`), flag(`\seen`).not())
	case *command.SearchKeyKeyword:
		return flag(strings.ToLower(k.Value))
	case *command.SearchKeyUnkeyword:
		return flag(strings.ToLower(k.Value)).not()

	case *command.SearchKeyLarger:
		return of(m.Size > k.Value)
	case *command.SearchKeySmaller:
		return of(m.Size < k.Value)

	case *command.SearchKeyBefore:
		return of(m.IDay.cmp(civilOf(k.Value)) < 0)
	case *command.SearchKeyOn:
		return of(m.IDay.cmp(civilOf(k.Value)) == 0)
	case *command.SearchKeySince:
		if m.Crossing && kf.Listed(KfSinceZone) {
			return e.known(KfSinceZone)
		}

		return of(m.IDay.cmp(civilOf(k.Value)) >= 0)

	case *command.SearchKeySentBefore:
		return of(m.G.Sent.cmp(civilOf(k.Value)) < 0)
	case *command.SearchKeySentOn:
		return of(m.G.Sent.cmp(civilOf(k.Value)) == 0)
	case *command.SearchKeySentSince:
		return of(m.G.Sent.cmp(civilOf(k.Value)) >= 0)

	case *command.SearchKeyUID:
		return e.uidSet(m, k.SeqSet)
	case *command.SearchKeySeqSet:
		return e.seqSet(m, k.SeqSet)

	case *command.SearchKeyFrom:
		return e.headerKey(m, "From", k.Value, false)
	case *command.SearchKeyTo:
		return e.headerKey(m, "To", k.Value, false)
	case *command.SearchKeyCC:
		return e.headerKey(m, "Cc", k.Value, false)
	case *command.SearchKeyBCC:
		return e.headerKey(m, "Bcc", k.Value, false)
	case *command.SearchKeySubject:
		return e.headerKey(m, "Subject", k.Value, false)
	case *command.SearchKeyHeader:
		return e.headerKey(m, k.Field, k.Value, true)
	case *command.SearchKeyBody:
		return e.contains([]string{m.body, m.bodyAlt}, lower(k.Value), "multipart-framing")
	case *command.SearchKeyText:
		return e.contains([]string{m.Full, m.unfolded}, lower(k.Value), "text-fold-or-framing")
	}

	panic(fmt.Sprintf("c15: unknown leaf %T", k))
}

func (e *evaluator) key(k command.SearchKey, m *vmsg) tri {
	switch k := k.(type) {
	case *command.SearchKeyNot:
		return e.key(k.Key, m).not()
	case *command.SearchKeyOr:
		// both sides are always evaluated: the side effects (oor, labels) must not depend on short-circuiting
		a, b := e.key(k.Key1, m), e.key(k.Key2, m)
		return or(a, b)
	case *command.SearchKeyList:
		return e.keys(k.Keys, m)
	}

	return e.leaf(k, m)
}

func (e *evaluator) keys(ks []command.SearchKey, m *vmsg) tri {
	res := yes

	for _, k := range ks {
		res = and(res, e.key(k, m))
	}

	return res
}

// scan walks the tree once without a message (for views that are empty: out-of-range numbers, UID keys).
func (e *evaluator) scan(ks []command.SearchKey) {
	dummy := &vmsg{Flags: map[string]bool{}, G: &gmsg{}}

	var walk func(k command.SearchKey)

	walk = func(k command.SearchKey) {
		switch k := k.(type) {
		case *command.SearchKeyNot:
			walk(k.Key)
		case *command.SearchKeyOr:
			walk(k.Key1)
			walk(k.Key2)
		case *command.SearchKeyList:
			for _, s := range k.Keys {
				walk(s)
			}
		case *command.SearchKeySeqSet:
			e.seqSet(dummy, k.SeqSet)
		case *command.SearchKeyUID:
			e.uidKey = true
		}
	}

	for _, k := range ks {
		walk(k)
	}
}

// verdicts evaluates the search over every message of the view.
func (e *evaluator) verdicts(ks []command.SearchKey) []tri {
	e.scan(ks)

	res := make([]tri, e.v.n())
	for i, m := range e.v.Msgs {
		res[i] = e.keys(ks, m)
	}

	return res
}

// ---- shape of a tree ---------------------------------------------------------------------------------------------

func depthOf(k command.SearchKey) int {
	switch k := k.(type) {
	case *command.SearchKeyNot:
		return 1 + depthOf(k.Key)
	case *command.SearchKeyOr:
		return 1 + max(depthOf(k.Key1), depthOf(k.Key2))
	case *command.SearchKeyList:
		d := 0
		for _, s := range k.Keys {
			d = max(d, depthOf(s))
		}

		return 1 + d
	}

	return 1
}

// searchDepth: several juxtaposed keys form an (implicit) list.
func searchDepth(ks []command.SearchKey) int {
	d := 0
	for _, k := range ks {
		d = max(d, depthOf(k))
	}

	if len(ks) > 1 {
		d++
	}

	return d
}

func kindOf(k command.SearchKey) string {
	return strings.TrimPrefix(fmt.Sprintf("%T", k), "*command.SearchKey")
}

func kindsOf(ks []command.SearchKey) []string {
	set := map[string]bool{}

	var walk func(k command.SearchKey)

	walk = func(k command.SearchKey) {
		set[kindOf(k)] = true

		switch k := k.(type) {
		case *command.SearchKeyNot:
			walk(k.Key)
		case *command.SearchKeyOr:
			walk(k.Key1)
			walk(k.Key2)
		case *command.SearchKeyList:
			for _, s := range k.Keys {
				walk(s)
			}
		}
	}

	for _, k := range ks {
		walk(k)
	}

	res := make([]string, 0, len(set))
	for k := range set {
		res = append(res, k)
	}

	sort.Strings(res)

	return res
}
