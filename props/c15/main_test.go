package c15

import (
	"testing"

	"verif/internal/ev"
)

const rule = "one case = one SEARCH / UID SEARCH command sent to a real server; non-trivial: key tree of depth >= 2 " +
	"(juxtaposed keys count as a list) over a view of the searching session where the result is neither empty nor ALL; " +
	"distinct by hash of (view content, command text)"

func TestMain(m *testing.M) {
	ev.Main(m, "C15", "exploration", rule,
		"the view is what the searching session answers to UID FETCH 1:* (FLAGS INTERNALDATE RFC822.SIZE BODY.PEEK[]) immediately before the searches (re-probed afterwards: unchanged)",
		"BEFORE/ON/SINCE are judged against the calendar day of the INTERNALDATE the server reports (RFC 3501: disregarding time and timezone); SENT* against the day written in the Date: header",
		"text keys: ASCII-case-insensitive substring; judged only where all readings of the text agree (white space around folds and behind the colon, MIME framing of multiparts, zero-length string on an absent field are not judged)",
		"a sequence-set key naming a number beyond the view may be refused (BAD/NO, property C16) or is evaluated with that number denoting no message; a UID range n:* with n above the highest UID is not judged (exempted by C16)")
}
