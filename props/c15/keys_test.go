package c15

import (
	"bytes"
	"fmt"
	"strconv"
	"strings"
	"time"
	"unicode/utf8"

	"github.com/ProtonMail/gluon/imap/command"
	"pgregory.net/rapid"

	"verif/internal/imapc"
	"verif/props/c10"
)

// biaser replaces the leaves of a key tree drawn by C10's grammar-based generator with leaves of the same kind whose
// arguments are taken from the mailbox at hand (values that occur / just do not occur).
type biaser struct {
	t *rapid.T
	v *view
	// all generated messages of the mailbox (also those that are not in the view any more)
	all []*gmsg
}

func (b *biaser) msg(label string) *vmsg {
	if b.v.n() == 0 {
		return nil
	}

	return b.v.Msgs[intn(b.t, label+"-msg", 0, b.v.n()-1)]
}

func (b *biaser) gm(label string) *gmsg {
	if m := b.msg(label); m != nil && chance(b.t, label+"-inview", 7, 8) {
		return m.G
	}

	if len(b.all) == 0 {
		return nil
	}

	return b.all[intn(b.t, label+"-any", 0, len(b.all)-1)]
}

// substring draws a piece of s (1..14 bytes, cut at rune boundaries for 8-bit text).
func (b *biaser) substring(label, s string) string {
	if s == "" {
		return ""
	}

	start := intn(b.t, label+"-start", 0, len(s)-1)
	n := intn(b.t, label+"-len", 1, 14)

	if chance(b.t, label+"-word", 1, 3) {
		// a whole word around start
		for start > 0 && s[start-1] != ' ' {
			start--
		}

		n = strings.IndexByte(s[start:]+" ", ' ')
		if n == 0 {
			n = 1
		}
	}

	end := min(len(s), start+n)

	for start > 0 && s[start]&0xc0 == 0x80 {
		start--
	}

	for end < len(s) && s[end]&0xc0 == 0x80 {
		end++
	}

	return s[start:end]
}

var absentNeedles = []string{"zzqnotthere", "alphabeta", "example.co.uk", "needles", "xyzzyx", "@example.net>", "q"}

// needle draws a search string for a text key. own = the texts the key looks at, other = texts of the same message it
// must not look at.
func (b *biaser) needle(label string, own, other []string, vocab []string) string {
	var s string

	switch intn(b.t, label+"-src", 0, 14) {
	case 12, 13, 14:
		// an 8-bit word of the text itself (the short ones can also be said in ISO-8859-1, see drawCharset)
		var have []string

		for _, w := range eightWords {
			for _, o := range own {
				if strings.Contains(o, w) {
					have = append(have, w)
					break
				}
			}
		}

		if len(have) > 0 {
			s = pick(b.t, label+"-eight", have)
		} else {
			s = pick(b.t, label+"-vocab", vocab)
		}
	case 0, 1, 2, 3, 4, 5:
		if len(own) > 0 {
			s = b.substring(label, pick(b.t, label+"-own", own))
		} else {
			s = pick(b.t, label+"-vocab", vocab)
		}
	case 6, 7:
		s = pick(b.t, label+"-vocab", vocab)
	case 8, 9:
		if len(other) > 0 {
			s = b.substring(label, pick(b.t, label+"-other", other))
		} else {
			s = pick(b.t, label+"-absent", absentNeedles)
		}
	case 10:
		s = pick(b.t, label+"-absent", absentNeedles)
	default:
		if chance(b.t, label+"-empty", 1, 3) {
			return ""
		}

		s = pick(b.t, label+"-vocab", vocab)
	}

	if s == "" {
		s = pick(b.t, label+"-vocab", vocab)
	}

	return flipCase(b.t, label, s)
}

func canonOf(g *gmsg, name string) []string {
	var res []string

	for _, f := range g.Fields {
		if strings.EqualFold(f.Name, name) {
			if c := f.canon(); c != "" {
				res = append(res, c)
			}
		}
	}

	return res
}

func othersOf(g *gmsg, name string) []string {
	var res []string

	for _, f := range g.Fields {
		if !strings.EqualFold(f.Name, name) {
			if c := f.canon(); c != "" {
				res = append(res, c)
			}
		}
	}

	for _, l := range strings.Split(g.Body, "\r\n") {
		if l != "" {
			res = append(res, l)
		}
	}

	return res
}

func (b *biaser) headerNeedle(label, name string) string {
	g := b.gm(label)
	if g == nil {
		return flipCase(b.t, label, pick(b.t, label+"-vocab", subjectWords))
	}

	vocab := subjectWords
	if !strings.EqualFold(name, "Subject") {
		vocab = []string{"alice", "Bob Baker", "example.com", "carol@mail.test", "<dave@", "Eve", "Archer, Alice", "example.org>", "one", "two"}
	}

	return b.needle(label, canonOf(g, name), othersOf(g, name), vocab)
}

func (b *biaser) bodyNeedle(label string) string {
	g := b.gm(label)
	if g == nil {
		return pick(b.t, label+"-vocab", bodyWords)
	}

	var own, other []string

	texts := []string{g.Body}
	if g.Parts != nil {
		texts = g.Parts

		if chance(b.t, label+"-framing", 1, 4) {
			texts = []string{g.Body}
		}
	}

	for _, txt := range texts {
		for _, l := range strings.Split(txt, "\r\n") {
			if l != "" {
				own = append(own, l)
			}
		}
	}

	for _, f := range g.Fields {
		if c := f.canon(); c != "" {
			other = append(other, c)
		}
	}

	return b.needle(label, own, other, bodyWords)
}

func (b *biaser) textNeedle(label string) string {
	g := b.gm(label)
	if g == nil {
		return pick(b.t, label+"-vocab", bodyWords)
	}

	var own []string

	for _, l := range strings.Split(string(g.Lit), "\r\n") {
		if strings.Trim(l, " \t") != "" {
			own = append(own, l)
		}
	}

	// folded header values in their unfolded form (a needle across a fold is judged "unknown")
	for _, f := range g.Fields {
		if strings.Contains(f.Raw, "\r\n") {
			own = append(own, f.canon())
		}
	}

	return b.needle(label, own, nil, append(append([]string{}, bodyWords...), "X-Pm-Gluon-Id", "subject: ", "From:"))
}

var absentFields = []string{"X-Nope", "Reply-To", "X-Ta", "X-Tags", "Subjec", "Sender", "X-Pm-Gluon-Id"}

func (b *biaser) headerField(label string) (string, string) {
	g := b.gm(label)

	var name string

	switch {
	case g == nil || chance(b.t, label+"-absent", 1, 4):
		name = pick(b.t, label+"-absent", absentFields)
	case chance(b.t, label+"-common", 1, 2):
		name = pick(b.t, label+"-common", []string{"X-Tag", "Subject", "From", "To", "Cc", "Bcc", "Comments", "X-Empty", "Date", "Message-ID", "Content-Type"})
	default:
		name = pick(b.t, label+"-own", g.Fields).Name
	}

	var value string

	switch {
	case chance(b.t, label+"-empty", 1, 3):
		value = ""
	case g == nil:
		value = pick(b.t, label+"-vocab", tagWords)
	default:
		var own []string
		// all occurrences, the later ones twice as likely as the first (HEADER must look at every field of the name)
		occ := canonOf(g, name)
		own = append(own, occ...)

		if len(occ) > 1 {
			own = append(own, occ[1:]...)
		}

		value = b.needle(label, own, othersOf(g, name), tagWords)
	}

	return flipCase(b.t, label+"-name", name), value
}

func (b *biaser) keyword(label string) string {
	var pool []string

	if m := b.msg(label); m != nil {
		for f := range m.Flags {
			if !strings.HasPrefix(f, `\`) {
				pool = append(pool, f)
			}
		}
	}

	if len(pool) == 0 || chance(b.t, label+"-any", 1, 3) {
		pool = append(append([]string{}, keywordPool...), "Seen", "Recent", "kw", "kw11", "$Label", "Deleted")
	}

	// map iteration order must not matter
	sortStrings(pool)

	return flipCase(b.t, label, pick(b.t, label, pool))
}

func (b *biaser) size(label string) int {
	base := 0
	if m := b.msg(label); m != nil {
		base = m.Size
	}

	switch intn(b.t, label+"-class", 0, 9) {
	case 0:
		return 0
	case 1:
		return pick(b.t, label+"-big", []int{1, 100, 1000, 65536, 4294967295})
	case 2:
		return max(0, base+intn(b.t, label+"-off", -40, 40))
	default:
		return max(0, base+intn(b.t, label+"-off1", -1, 1))
	}
}

func clampDay(c civil) civil {
	if c.Y < 1900 || c.Y > 2200 {
		return civil{1990, 1, 1}
	}

	return c
}

// date draws a search date near the dates of the messages. sent = for the SENT* keys.
func (b *biaser) date(label string, sent bool) time.Time {
	var cands []civil

	if m := b.msg(label); m != nil {
		if sent {
			cands = append(cands, m.G.Sent, m.G.Sent, m.G.SentUTC)
		} else {
			cands = append(cands, m.IDay, m.IDay)

			if m.G.HasDT {
				cands = append(cands, civilOf(m.G.AppendDT))
			}
		}
	}

	if len(cands) == 0 || chance(b.t, label+"-pool", 1, 8) {
		cands = append([]civil{}, dayPool...)
		cands = append(cands, civil{1990, 1, 1}, civil{2100, 12, 31}, civil{2020, 12, 31})
	}

	d := clampDay(pick(b.t, label, cands)).add(intn(b.t, label+"-off", -1, 1))

	return d.time()
}

func (b *biaser) num(label string, kind string) command.SeqNum {
	n := b.v.n()

	if kind == "seq" {
		switch intn(b.t, label+"-class", 0, 9) {
		case 0:
			return 1
		case 1:
			return command.SeqNum(max(1, n))
		case 2:
			return command.SeqNum(max(1, n-1))
		case 3:
			if chance(b.t, label+"-oor", 1, 3) {
				return command.SeqNum(n + intn(b.t, label+"-beyond", 1, 3))
			}

			return command.SeqNum(max(1, n))
		case 4:
			return command.SeqNumValueAsterisk
		default:
			return command.SeqNum(intn(b.t, label, 1, max(1, n)))
		}
	}

	maxUID := int(b.v.maxUID)

	switch intn(b.t, label+"-class", 0, 9) {
	case 0:
		return 1
	case 1:
		return command.SeqNum(max(1, maxUID))
	case 2:
		return command.SeqNum(maxUID + intn(b.t, label+"-beyond", 1, 3))
	case 3:
		return command.SeqNumValueAsterisk
	case 4:
		return command.SeqNum(pick(b.t, label+"-big", []int{2147483647, 4294967295, 65536}))
	case 5, 6, 7:
		if m := b.msg(label); m != nil {
			return command.SeqNum(m.UID)
		}

		return 1
	default:
		return command.SeqNum(intn(b.t, label, 1, max(1, maxUID+1)))
	}
}

func (b *biaser) set(label, kind string) []command.SeqRange {
	n := 1

	switch intn(b.t, label+"-size", 0, 5) {
	case 3, 4:
		n = 2
	case 5:
		n = intn(b.t, label+"-n", 3, 4)
	}

	set := make([]command.SeqRange, n)

	for i := range set {
		a := b.num(label+"-a", kind)

		if chance(b.t, label+"-single", 2, 5) {
			set[i] = command.SeqRange{Begin: a, End: a}
		} else {
			set[i] = command.SeqRange{Begin: a, End: b.num(label+"-b", kind)}
		}
	}

	return set
}

// leaf returns the data-biased replacement of a leaf drawn by C10's generator (same kind).
func (b *biaser) leaf(k command.SearchKey) command.SearchKey {
	l := "k" + kindOf(k)

	switch k.(type) {
	case *command.SearchKeyFrom:
		return &command.SearchKeyFrom{Value: b.headerNeedle(l, "From")}
	case *command.SearchKeyTo:
		return &command.SearchKeyTo{Value: b.headerNeedle(l, "To")}
	case *command.SearchKeyCC:
		return &command.SearchKeyCC{Value: b.headerNeedle(l, "Cc")}
	case *command.SearchKeyBCC:
		return &command.SearchKeyBCC{Value: b.headerNeedle(l, "Bcc")}
	case *command.SearchKeySubject:
		return &command.SearchKeySubject{Value: b.headerNeedle(l, "Subject")}
	case *command.SearchKeyBody:
		return &command.SearchKeyBody{Value: b.bodyNeedle(l)}
	case *command.SearchKeyText:
		return &command.SearchKeyText{Value: b.textNeedle(l)}
	case *command.SearchKeyHeader:
		f, v := b.headerField(l)
		return &command.SearchKeyHeader{Field: f, Value: v}
	case *command.SearchKeyKeyword:
		return &command.SearchKeyKeyword{Value: b.keyword(l)}
	case *command.SearchKeyUnkeyword:
		return &command.SearchKeyUnkeyword{Value: b.keyword(l)}
	case *command.SearchKeyLarger:
		return &command.SearchKeyLarger{Value: b.size(l)}
	case *command.SearchKeySmaller:
		return &command.SearchKeySmaller{Value: b.size(l)}
	case *command.SearchKeyBefore:
		return &command.SearchKeyBefore{Value: b.date(l, false)}
	case *command.SearchKeyOn:
		return &command.SearchKeyOn{Value: b.date(l, false)}
	case *command.SearchKeySince:
		return &command.SearchKeySince{Value: b.date(l, false)}
	case *command.SearchKeySentBefore:
		return &command.SearchKeySentBefore{Value: b.date(l, true)}
	case *command.SearchKeySentOn:
		return &command.SearchKeySentOn{Value: b.date(l, true)}
	case *command.SearchKeySentSince:
		return &command.SearchKeySentSince{Value: b.date(l, true)}
	case *command.SearchKeyUID:
		return &command.SearchKeyUID{SeqSet: b.set(l, "uid")}
	case *command.SearchKeySeqSet:
		return &command.SearchKeySeqSet{SeqSet: b.set(l, "seq")}
	}

	return k // flag keys and ALL carry no argument
}

func (b *biaser) rewrite(k command.SearchKey) command.SearchKey {
	switch k := k.(type) {
	case *command.SearchKeyNot:
		return &command.SearchKeyNot{Key: b.rewrite(k.Key)}
	case *command.SearchKeyOr:
		return &command.SearchKeyOr{Key1: b.rewrite(k.Key1), Key2: b.rewrite(k.Key2)}
	case *command.SearchKeyList:
		keys := make([]command.SearchKey, len(k.Keys))
		for i, s := range k.Keys {
			keys[i] = b.rewrite(s)
		}

		return &command.SearchKeyList{Keys: keys}
	}

	return b.leaf(k)
}

// drawKeys draws the keys of one SEARCH: structure from C10's generator, leaves biased to the data.
func (b *biaser) drawKeys(minDepth int) []command.SearchKey {
	g := c10.NewGen(b.t)
	g.MaxDepth, g.MaxSet = 4, 16

	s := g.Search(minDepth)
	keys := make([]command.SearchKey, len(s.Keys))

	for i, k := range s.Keys {
		keys[i] = b.rewrite(k)
	}

	return keys
}

// drawKey draws a single key (for the metamorphic relations).
func (b *biaser) drawKey(maxDepth int) command.SearchKey {
	g := c10.NewGen(b.t)
	g.MaxDepth, g.MaxSet = maxDepth, 16

	s := g.Search(0)

	return b.rewrite(s.Keys[intn(b.t, "which-key", 0, len(s.Keys)-1)])
}

func hasEightBit(ks []command.SearchKey) bool {
	found := false

	var walk func(k command.SearchKey)

	str := func(s string) {
		for i := 0; i < len(s); i++ {
			if s[i] >= 0x80 {
				found = true
			}
		}
	}

	walk = func(k command.SearchKey) {
		switch k := k.(type) {
		case *command.SearchKeyNot:
			walk(k.Key)
		case *command.SearchKeyOr:
			walk(k.Key1)
			walk(k.Key2)
		case *command.SearchKeyList:
			for _, s := range k.Keys {
				walk(s)
			}
		case *command.SearchKeyFrom:
			str(k.Value)
		case *command.SearchKeyTo:
			str(k.Value)
		case *command.SearchKeyCC:
			str(k.Value)
		case *command.SearchKeyBCC:
			str(k.Value)
		case *command.SearchKeySubject:
			str(k.Value)
		case *command.SearchKeyBody:
			str(k.Value)
		case *command.SearchKeyText:
			str(k.Value)
		case *command.SearchKeyHeader:
			str(k.Value)
			str(k.Field)
		}
	}

	for _, k := range ks {
		walk(k)
	}

	return found
}

// drawCharset draws the CHARSET argument: none, UTF-8, US-ASCII or ISO-8859-1 in some letter case. 8-bit search
// strings are only legal with a charset that can express them: UTF-8, or ISO-8859-1 when every character of every
// string is below U+0100 (the strings then travel as Latin-1 bytes, see latin1Keys; the oracle keeps the characters).
func drawCharset(t *rapid.T, ks []command.SearchKey) string {
	if hasEightBit(ks) {
		if _, ok := latin1Keys(ks); ok && intn(t, "charset8", 0, 2) > 0 {
			return flipCase(t, "charset", "ISO-8859-1")
		}

		return flipCase(t, "charset", "UTF-8")
	}

	switch intn(t, "charset", 0, 6) {
	case 0:
		return flipCase(t, "charset", "UTF-8")
	case 1:
		return flipCase(t, "charset", "US-ASCII")
	case 2:
		return flipCase(t, "charset", "ISO-8859-1")
	}

	return ""
}

// isLatin1 reports whether the CHARSET argument names ISO-8859-1.
func isLatin1(charset string) bool { return strings.EqualFold(charset, "ISO-8859-1") }

// latin1Keys returns a copy of the keys whose strings are written in ISO-8859-1 (one byte per character), the form
// in which they travel when the command says CHARSET ISO-8859-1; false when a string has a character beyond U+00FF
// or is not valid UTF-8.
func latin1Keys(ks []command.SearchKey) ([]command.SearchKey, bool) {
	ok := true

	conv := func(s string) string {
		out := make([]byte, 0, len(s))

		for _, r := range s {
			if r > 0xff || r == utf8.RuneError {
				ok = false
				return s
			}

			out = append(out, byte(r))
		}

		return string(out)
	}

	var walk func(k command.SearchKey) command.SearchKey

	walk = func(k command.SearchKey) command.SearchKey {
		switch k := k.(type) {
		case *command.SearchKeyNot:
			return &command.SearchKeyNot{Key: walk(k.Key)}
		case *command.SearchKeyOr:
			return &command.SearchKeyOr{Key1: walk(k.Key1), Key2: walk(k.Key2)}
		case *command.SearchKeyList:
			l := make([]command.SearchKey, len(k.Keys))
			for i, s := range k.Keys {
				l[i] = walk(s)
			}

			return &command.SearchKeyList{Keys: l}
		case *command.SearchKeyFrom:
			return &command.SearchKeyFrom{Value: conv(k.Value)}
		case *command.SearchKeyTo:
			return &command.SearchKeyTo{Value: conv(k.Value)}
		case *command.SearchKeyCC:
			return &command.SearchKeyCC{Value: conv(k.Value)}
		case *command.SearchKeyBCC:
			return &command.SearchKeyBCC{Value: conv(k.Value)}
		case *command.SearchKeySubject:
			return &command.SearchKeySubject{Value: conv(k.Value)}
		case *command.SearchKeyBody:
			return &command.SearchKeyBody{Value: conv(k.Value)}
		case *command.SearchKeyText:
			return &command.SearchKeyText{Value: conv(k.Value)}
		case *command.SearchKeyHeader:
			return &command.SearchKeyHeader{Field: conv(k.Field), Value: conv(k.Value)}
		}

		return k
	}

	out := make([]command.SearchKey, len(ks))
	for i, k := range ks {
		out[i] = walk(k)
	}

	return out, ok
}

// encode writes the search with C10's encoder (drawn letter case, atom / quoted / literal forms, date spellings)
// and cuts the bytes into the parts imapc sends (text and synchronising literals).
func encode(t *rapid.T, uid bool, charset string, keys []command.SearchKey) ([]imapc.Part, string) {
	var p command.Payload = &command.Search{Charset: charset, Keys: keys}
	if uid {
		p = &command.UID{Command: p}
	}

	var src c10.Src = c10.FixedSrc{}
	if t != nil {
		src = c10.RapidSrc{T: t}
	}

	enc, _ := c10.Encode(src, command.Command{Tag: "X", Payload: p}, c10.Avoid{})

	return cut(enc)
}

func cut(enc c10.Encoded) ([]imapc.Part, string) {
	b := enc.Bytes
	b = b[:len(b)-2] // final CRLF

	var (
		parts []imapc.Part
		show  strings.Builder
	)

	pos := 2 // behind "X "

	for _, g := range enc.Gates {
		open := bytes.LastIndexByte(b[:g], '{')
		n, err := strconv.Atoi(string(b[open+1 : g-3]))

		if err != nil || open < pos {
			panic(fmt.Sprintf("c15: cannot cut literal in %q", b))
		}

		parts = append(parts, imapc.T(string(b[pos:open])), imapc.L(b[g:g+n]))
		fmt.Fprintf(&show, "%s{%d}%q", b[pos:open], n, b[g:g+n])
		pos = g + n
	}

	parts = append(parts, imapc.T(string(b[pos:])))
	show.Write(b[pos:])

	return parts, show.String()
}
