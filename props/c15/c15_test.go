package c15

import (
	"bytes"
	"fmt"
	"github.com/ProtonMail/gluon/imap"
	"regexp"
	"sort"
	"strconv"
	"strings"
	"testing"
	"time"

	"github.com/ProtonMail/gluon/imap/command"
	"pgregory.net/rapid"

	"verif/internal/bed"
	"verif/internal/ev"
	"verif/internal/imapc"
	"verif/internal/kf"
	"verif/props/c10"
)

func sortStrings(s []string) { sort.Strings(s) }

// inconclusive ends the case with a harness problem (never a verdict about gluon).
func inconclusive(t *rapid.T, b *bed.Bed, format string, a ...any) {
	t.Fatalf("VERIF-INCONCLUSIVE: "+format+"\nhistory:\n%s", append(a, b.Hist)...)
}

// world is one mailbox case: a server, the searching session and its view.
type world struct {
	t     *rapid.T
	b     *bed.Bed
	u     *bed.User
	s     *bed.Session // the searching session
	o     *bed.Session // the other session (builds the mailbox, changes it behind the gate)
	all   []*gmsg
	byUID map[uint32]*gmsg
	v     *view
	kind  string // view kind
	mhash uint64

	labels   map[string]bool
	searches int
}

var prefixRE = regexp.MustCompile(`^(X-Pm-Gluon-Id):( [^\r\n]+)\r\n$`)

// encodeCmd writes any command with C10's encoder.
func encodeCmd(t *rapid.T, p command.Payload) []imapc.Part {
	enc, _ := c10.Encode(c10.RapidSrc{T: t}, command.Command{Tag: "X", Payload: p}, c10.Avoid{})
	parts, _ := cut(enc)

	return parts
}

func (w *world) append(m *gmsg) {
	p := &command.Append{Mailbox: "INBOX", Flags: m.Flags, Literal: m.Lit}
	if m.HasDT {
		p.DateTime = m.AppendDT
	}

	r := w.o.DoParts(encodeCmd(w.t, p)...)
	if !r.OK() {
		inconclusive(w.t, w.b, "APPEND of generated message %d refused: %v\nliteral: %q", m.Idx, r, m.Lit)
	}

	f := strings.Fields(r.Code)
	if len(f) != 3 || !strings.EqualFold(f[0], "APPENDUID") {
		inconclusive(w.t, w.b, "APPEND without APPENDUID: %v", r)
	}

	uid, _ := strconv.ParseUint(f[2], 10, 32)
	w.byUID[uint32(uid)] = m
	w.all = append(w.all, m)
}

// expungeSome lets the other session expunge a drawn subset of the given UIDs.
func (w *world) expungeSome(label string, uids []uint32, num, den int) int {
	var del []string

	for _, u := range uids {
		if chance(w.t, label, num, den) {
			del = append(del, strconv.Itoa(int(u)))
		}
	}

	if len(del) == 0 {
		return 0
	}

	set := strings.Join(del, ",")
	if r := w.o.Do("UID STORE " + set + ` +FLAGS.SILENT (\Deleted)`); !r.OK() {
		inconclusive(w.t, w.b, "%v", r)
	}

	if r := w.o.Do("UID EXPUNGE " + set); !r.OK() {
		inconclusive(w.t, w.b, "%v", r)
	}

	return len(del)
}

func (w *world) uids() []uint32 {
	res := make([]uint32, 0, len(w.byUID))
	for u := range w.byUID {
		res = append(res, u)
	}

	sort.Slice(res, func(i, j int) bool { return res[i] < res[j] })

	return res
}

// probe reads the searching session's own view: UID FETCH 1:* (FLAGS INTERNALDATE RFC822.SIZE BODY.PEEK[]).
// It is repeated until the command flushes nothing any more (a FETCH applies pending EXISTS / flag announcements
// behind its data), so that the view returned is the one the following SEARCH commands are answered from.
func (w *world) probe(withBody bool) *view {
	items := "(FLAGS INTERNALDATE RFC822.SIZE)"
	if withBody {
		items = "(FLAGS INTERNALDATE RFC822.SIZE BODY.PEEK[])"
	}

	for try := 0; try < 4; try++ {
		r := w.s.Do("UID FETCH 1:* " + items)
		if !r.OK() {
			inconclusive(w.t, w.b, "probe failed: %v", r)
		}

		v := &view{}
		clean := true

		for _, un := range r.Untagged {
			n, kw, ok := un.Num()
			if !ok {
				continue
			}

			it, isFetch := imapc.FetchItems(un)
			if kw != "FETCH" || !isFetch {
				clean = false
				continue
			}

			if _, ok := it["INTERNALDATE"]; !ok {
				clean = false // a flag announcement flushed behind the probe data
				continue
			}

			uid, _ := strconv.ParseUint(it["UID"].Str, 10, 32)
			size, _ := strconv.Atoi(it["RFC822.SIZE"].Str)

			idate, err := time.Parse("_2-Jan-2006 15:04:05 -0700", it["INTERNALDATE"].Str)
			if err != nil {
				inconclusive(w.t, w.b, "cannot parse INTERNALDATE %q", it["INTERNALDATE"].Str)
			}

			m := &vmsg{Seq: n, UID: uint32(uid), Flags: map[string]bool{}, IDate: idate, IDay: civilOf(idate), Size: size, G: w.byUID[uint32(uid)]}
			for _, f := range imapc.FlagSet(it["FLAGS"]) {
				m.Flags[f] = true
			}

			if m.G == nil {
				inconclusive(w.t, w.b, "view holds UID %d which no APPEND returned", uid)
			}

			if withBody {
				full := it["BODY[]"].Str
				if !strings.HasSuffix(full, string(m.G.Lit)) {
					inconclusive(w.t, w.b, "UID %d: BODY[] does not end with the appended literal\n got %q\nwant %q", uid, full, m.G.Lit)
				}

				sub := prefixRE.FindStringSubmatch(full[:len(full)-len(m.G.Lit)])
				if sub == nil {
					inconclusive(w.t, w.b, "UID %d: unexpected text in front of the appended literal: %q", uid, full[:len(full)-len(m.G.Lit)])
				}

				m.Prefix = field{Name: sub[1], Raw: sub[2]}
				m.Full = lower(full)
				m.prepare()
			}

			v.Msgs = append(v.Msgs, m)
		}

		if !clean {
			continue
		}

		sort.Slice(v.Msgs, func(i, j int) bool { return v.Msgs[i].Seq < v.Msgs[j].Seq })

		for i, m := range v.Msgs {
			if m.Seq != uint32(i+1) || (i > 0 && v.Msgs[i-1].UID >= m.UID) {
				inconclusive(w.t, w.b, "probe: sequence numbers not dense or UIDs not ascending: %s", describeView(v))
			}

			v.maxUID = m.UID
		}

		return v
	}

	inconclusive(w.t, w.b, "probe: the view does not settle")

	return nil
}

func describeView(v *view) string {
	var sb strings.Builder

	for _, m := range v.Msgs {
		flags := make([]string, 0, len(m.Flags))
		for f := range m.Flags {
			flags = append(flags, f)
		}

		sort.Strings(flags)
		fmt.Fprintf(&sb, "  seq %d uid %d flags %v internaldate %q size %d", m.Seq, m.UID, flags, m.IDate.Format("02-Jan-2006 15:04:05 -0700"), m.Size)

		if m.G != nil {
			dt := "-"
			if m.G.HasDT {
				dt = m.G.AppendDT.Format("02-Jan-2006 15:04:05 -0700")
			}

			fmt.Fprintf(&sb, " appended-with %q literal %q", dt, m.G.Lit)
		}

		sb.WriteString("\n")
	}

	return sb.String()
}

func sameView(a, b *view) bool {
	if a.n() != b.n() {
		return false
	}

	for i := range a.Msgs {
		x, y := a.Msgs[i], b.Msgs[i]
		if x.UID != y.UID || len(x.Flags) != len(y.Flags) {
			return false
		}

		for f := range x.Flags {
			if !y.Flags[f] {
				return false
			}
		}
	}

	return true
}

// build makes the mailbox and the searching session's view.
func (w *world) build() {
	t := w.t

	var n int

	switch intn(t, "size-class", 0, 9) {
	case 0:
		n = 0
	case 1, 2, 3:
		n = intn(t, "n", 1, 4)
	case 4, 5, 6, 7:
		n = intn(t, "n", 5, 12)
	default:
		n = intn(t, "n", 13, ev.Pick(25, 40))
	}

	for i := 0; i < n; i++ {
		w.append(drawMessage(t, i))
	}

	selectOther := func() {
		if w.o.Selected == "" {
			if r := w.o.Select("INBOX", false); !r.OK() {
				inconclusive(t, w.b, "%v", r)
			}
		}
	}

	// UID gaps: the other session expunges some messages before the searching session arrives
	if n > 0 && chance(t, "pre-expunge", 1, 2) {
		selectOther()

		if w.expungeSome("pre-del", w.uids(), 1, 3) > 0 {
			w.labels["uid-gaps"] = true
		}
	}

	// The searching session logs in only now: nothing that happened so far is queued for it (updates queued before a
	// SELECT are applied to the snapshot taken by it: listed finding C02-stale-update-after-select).
	if err := w.b.Barrier(w.u); err != nil {
		inconclusive(t, w.b, "barrier: %v", err)
	}

	var err error
	if w.s, err = w.b.Login("s", w.u); err != nil {
		inconclusive(t, w.b, "login: %v", err)
	}

	if r := w.s.Select("INBOX", chance(t, "examine", 1, 4)); !r.OK() {
		inconclusive(t, w.b, "%v", r)
	}

	w.kind = pick(t, "view-kind", []string{"fresh", "fresh", "held", "held", "held", "released-noop", "released-pending"})
	if w.kind == "fresh" {
		return
	}

	// the searching session keeps its view while the mailbox changes elsewhere
	w.s.GateClose()
	selectOther()

	present := func() []uint32 {
		r := w.o.Do("UID FETCH 1:* (FLAGS)")
		if !r.OK() {
			inconclusive(t, w.b, "%v", r)
		}

		var res []uint32

		for _, un := range r.Untagged {
			if _, kw, ok := un.Num(); ok && kw == "FETCH" {
				if it, ok := imapc.FetchItems(un); ok {
					uid, _ := strconv.ParseUint(it["UID"].Str, 10, 32)
					res = append(res, uint32(uid))
				}
			}
		}

		sort.Slice(res, func(i, j int) bool { return res[i] < res[j] })

		return res
	}

	for i, k := 0, intn(t, "elsewhere-n", 1, 4); i < k; i++ {
		switch intn(t, "elsewhere", 0, 4) {
		case 4:
			// the connector deletes a message (it is marked for deletion in the index; the view keeps it until the
			// EXPUNGE has been sent, and has to go on answering for it)
			if uids := present(); len(uids) > 0 {
				g := w.byUID[pick(t, "else-conn-del-uid", uids)]

				var id imap.MessageID

				w.u.Conn.Lock(func() {
					for rid, rm := range w.u.Conn.Messages {
						if g != nil && bytes.Equal(rm.Literal, g.Lit) {
							id = rid
						}
					}

					delete(w.u.Conn.Messages, id)
				})

				if id != "" {
					if d := w.b.DeliverNow(w.u, imap.NewMessagesDeleted(id)); d[0].Err != nil {
						inconclusive(t, w.b, "MessageDeleted: %v", d[0].Err)
					}

					w.labels["deleted-by-connector"] = true
				}
			}
		case 0, 1:
			if w.expungeSome("else-del", present(), 1, 3) > 0 {
				w.labels["expunged-elsewhere"] = true
			}
		case 2:
			if uids := present(); len(uids) > 0 {
				u := pick(t, "else-store-uid", uids)
				op := pick(t, "else-store-op", []string{"+FLAGS", "-FLAGS", "FLAGS"})
				flags := drawFlags(t, "else-store-flags")

				if r := w.o.Do(fmt.Sprintf("UID STORE %d %s (%s)", u, op, strings.Join(flags, " "))); !r.OK() {
					inconclusive(t, w.b, "%v", r)
				}

				w.labels["flags-changed-elsewhere"] = true
			}
		default:
			w.append(drawMessage(t, len(w.all)))
			w.labels["appended-elsewhere"] = true
		}
	}

	if w.kind == "held" {
		return
	}

	w.s.Release(-1)

	if err := w.b.Barrier(w.u); err != nil {
		inconclusive(t, w.b, "barrier: %v", err)
	}

	if w.kind == "released-noop" {
		if r := w.s.Do("NOOP"); !r.OK() {
			inconclusive(t, w.b, "%v", r)
		}
	}
	// released-pending: additions and flag changes are applied by the probe's flush, the removals stay pending
	// (FETCH and SEARCH must not send EXPUNGE): the view still holds the messages expunged elsewhere.
}

// outcome of one SEARCH command.
type outcome struct {
	status string
	set    map[int]bool // positions (0-based) of the view
	cmd    string
}

func parseSearch(r *imapc.Result) (nums []uint32, lines int, err error) {
	for _, un := range r.Untagged {
		if un.Tag != "*" || un.Keyword() != "SEARCH" {
			continue
		}

		lines++

		for _, tok := range un.Tokens[1:] {
			v, e := strconv.ParseUint(tok.Str, 10, 32)
			if e != nil || tok.Kind != imapc.Atom {
				return nil, lines, fmt.Errorf("malformed SEARCH response %q", un.Raw)
			}

			nums = append(nums, uint32(v))
		}
	}

	return nums, lines, nil
}

func (w *world) fail(format string, a ...any) {
	msg := fmt.Sprintf(format, a...)
	w.t.Fatalf("C15 violated: %s\nview (%s) of the searching session:\n%s\nhistory:\n%s\n==> C15 violated: %s", msg, w.kind, describeView(w.v), w.b.Hist, msg)
}

// search sends one SEARCH, judges the answer against the oracle and records the case.
func (w *world) search(uid bool, charset string, keys []command.SearchKey, extra ...string) outcome {
	t := w.t
	wire := keys

	if isLatin1(charset) {
		// the strings travel in the charset the command names; the oracle judges the characters they stand for
		l1, ok := latin1Keys(keys)
		if !ok {
			t.Fatalf("VERIF-INCONCLUSIVE: CHARSET ISO-8859-1 drawn for keys that Latin-1 cannot express")
		}

		wire = l1
	}

	parts, shown := encode(t, uid, charset, wire)

	e := newEvaluator(w.v)
	want := e.verdicts(keys)

	r := w.s.DoParts(parts...)
	w.searches++

	if r.Err != nil {
		w.fail("%s: connection failed: %v", shown, r.Err)
	}

	for _, un := range r.Untagged {
		if _, kw, ok := un.Num(); ok && (kw == "EXISTS" || kw == "FETCH" || kw == "EXPUNGE" || kw == "RECENT") {
			inconclusive(t, w.b, "the view changed during the search phase: %s", un.Raw)
		}
	}

	out := outcome{status: r.Status, set: map[int]bool{}, cmd: shown}
	depth := searchDepth(keys)

	labels := []string{"view:" + w.kind, fmt.Sprintf("depth:%d", min(depth, 6)), "messages:" + sizeClass(w.v.n())}
	labels = append(labels, extra...)

	for _, k := range kindsOf(keys) {
		labels = append(labels, "key:"+k)
	}

	if uid {
		labels = append(labels, "flavour:uid")
	} else {
		labels = append(labels, "flavour:seq")
	}

	if isLatin1(charset) && hasEightBit(keys) {
		labels = append(labels, "charset:iso-8859-1 with 8-bit strings")
	}

	if charset == "" {
		labels = append(labels, "charset:none")
	} else {
		labels = append(labels, "charset:"+strings.ToLower(charset))
	}

	for l := range w.labels {
		labels = append(labels, "mailbox:"+l)
	}

	for a := range e.ambig {
		labels = append(labels, "not-judged:"+a)
	}

	hash := ev.Hash(w.mhash, shown)
	record := func(nontrivial bool, more ...string) {
		ev.Case(nontrivial, hash, append(labels, more...)...)
		ev.Excluded(len(e.excluded))
	}

	if !r.OK() {
		switch {
		case e.oor && (r.Status == "BAD" || r.Status == "NO"):
			// a sequence number beyond the view: C16 demands BAD; C15 has nothing to say about the result
			record(false, "seq-out-of-range:refused")
			return out
		case w.v.n() == 0 && e.uidKey && r.Status == "NO" && kf.Listed(KfUIDKeyEmptyView):
			ev.Excluded(1)
			record(false, "known:"+KfUIDKeyEmptyView)

			return out
		}

		w.fail("%s -> %s %s (a valid search must be answered)", shown, r.Status, r.Text)
	}

	nums, lines, err := parseSearch(r)
	if err != nil {
		w.fail("%s: %v", shown, err)
	}

	if lines > 1 {
		w.fail("%s: %d untagged SEARCH responses", shown, lines)
	}

	// ascending, duplicate-free, members of the view
	pos := map[uint32]int{}

	for i, m := range w.v.Msgs {
		if uid {
			pos[m.UID] = i
		} else {
			pos[m.Seq] = i
		}
	}

	for i, x := range nums {
		if i > 0 && nums[i-1] >= x {
			w.fail("%s: result not strictly ascending: %v", shown, nums)
		}

		p, ok := pos[x]
		if !ok {
			w.fail("%s: result %v names %d, which is not a message of the session's view", shown, nums, x)
		}

		out.set[p] = true
	}

	// two-sided comparison with the oracle
	var missing, invented []string

	unknownN := 0

	for i, m := range w.v.Msgs {
		switch want[i] {
		case yes:
			if !out.set[i] {
				missing = append(missing, fmt.Sprintf("seq %d/uid %d", m.Seq, m.UID))
			}
		case no:
			if out.set[i] {
				invented = append(invented, fmt.Sprintf("seq %d/uid %d", m.Seq, m.UID))
			}
		default:
			unknownN++
		}
	}

	if len(missing)+len(invented) > 0 {
		w.fail("%s -> %v\n  matching messages missing from the result: %v\n  non-matching messages in the result: %v", shown, nums, missing, invented)
	}

	res := "some"

	switch len(nums) {
	case 0:
		res = "empty"
	case w.v.n():
		res = "all"
	}

	more := []string{"result:" + res}
	if e.oor {
		more = append(more, "seq-out-of-range:answered")
	}

	if unknownN > 0 {
		more = append(more, "has-unjudged-messages")
	}

	record(depth >= 2 && res == "some", more...)
	w.leafStats(keys)

	if ev.WantSample() {
		ev.Sample(map[string]any{"view_kind": w.kind, "messages": w.v.n(), "command": shown, "result": nums, "unjudged": unknownN})
	}

	return out
}

// leafStats records, per argument-carrying leaf, whether it selects none / some / all messages of the view (evidence
// that the arguments are biased to the data).
func (w *world) leafStats(keys []command.SearchKey) {
	if w.v.n() < 2 {
		return
	}

	e := newEvaluator(w.v)

	var walk func(k command.SearchKey)

	walk = func(k command.SearchKey) {
		switch k := k.(type) {
		case *command.SearchKeyNot:
			walk(k.Key)
		case *command.SearchKeyOr:
			walk(k.Key1)
			walk(k.Key2)
		case *command.SearchKeyList:
			for _, s := range k.Keys {
				walk(s)
			}
		default:
			if !hasArg(k) {
				return
			}

			n := 0

			for _, m := range w.v.Msgs {
				if e.leaf(k, m) == yes {
					n++
				}
			}

			cls := "some"

			switch n {
			case 0:
				cls = "none"
			case w.v.n():
				cls = "all"
			}

			ev.Class("leaf:"+kindOf(k)+":"+cls, 1)
		}
	}

	for _, k := range keys {
		walk(k)
	}
}

func hasArg(k command.SearchKey) bool {
	switch k.(type) {
	case *command.SearchKeyAll, *command.SearchKeyAnswered, *command.SearchKeyUnanswered, *command.SearchKeyDeleted, *command.SearchKeyUndeleted,
		*command.SearchKeyDraft, *command.SearchKeyUndraft, *command.SearchKeyFlagged, *command.SearchKeyUnflagged, *command.SearchKeySeen,
		*command.SearchKeyUnseen, *command.SearchKeyRecent, *command.SearchKeyOld, *command.SearchKeyNew:
		return false
	}

	return true
}

func sizeClass(n int) string {
	switch {
	case n == 0:
		return "0"
	case n <= 4:
		return "1-4"
	case n <= 12:
		return "5-12"
	}

	return "13+"
}

// ---- metamorphic relations (no knowledge of the data needed) --------------------------------------------------

func (w *world) positions(keep func(*vmsg) bool) map[int]bool {
	res := map[int]bool{}

	for i, m := range w.v.Msgs {
		if keep == nil || keep(m) {
			res[i] = true
		}
	}

	return res
}

func setString(s map[int]bool, v *view, uid bool) string {
	var xs []int

	for p := range s {
		if uid {
			xs = append(xs, int(v.Msgs[p].UID))
		} else {
			xs = append(xs, int(v.Msgs[p].Seq))
		}
	}

	sort.Ints(xs)

	return fmt.Sprint(xs)
}

func (w *world) relation(name string) {
	t := w.t
	b := &biaser{t: t, v: w.v, all: w.all}
	uid := chance(t, "rel-uid", 1, 3)
	lab := "relation:" + name

	run := func(keys ...command.SearchKey) outcome {
		return w.search(uid, drawCharset(t, keys), keys, lab)
	}
	ok := func(os ...outcome) bool {
		for _, o := range os {
			if o.status != "OK" {
				return false
			}
		}

		return true
	}
	str := func(s map[int]bool) string { return setString(s, w.v, uid) }
	universe := w.positions(nil)

	// with the SINCE finding listed, the date relations are judged on the messages outside its region only
	var scope func(*vmsg) bool

	if (name == "since-before" || name == "on") && kf.Listed(KfSinceZone) {
		scope = func(m *vmsg) bool { return !m.Crossing }

		for _, m := range w.v.Msgs {
			if m.Crossing {
				ev.Excluded(1)
				break
			}
		}
	}

	in := func(s map[int]bool, p int) bool { return s[p] }

	check := func(what string, holds func(p int) bool, os ...outcome) {
		for p := range universe {
			if scope != nil && !scope(w.v.Msgs[p]) {
				continue
			}

			if !holds(p) {
				var sb strings.Builder
				for _, o := range os {
					fmt.Fprintf(&sb, "\n  %s -> %s", o.cmd, str(o.set))
				}

				m := w.v.Msgs[p]
				w.fail("relation %s broken at seq %d/uid %d:%s", what, m.Seq, m.UID, sb.String())
			}
		}
	}

	switch name {
	case "not":
		k := b.drawKey(3)
		a, n := run(k), run(&command.SearchKeyNot{Key: k})

		if ok(a, n) {
			check("K and NOT K partition the mailbox", func(p int) bool { return in(a.set, p) != in(n.set, p) }, a, n)
		}
	case "or":
		k1, k2 := b.drawKey(2), b.drawKey(2)
		a, c, o := run(k1), run(k2), run(&command.SearchKeyOr{Key1: k1, Key2: k2})

		if ok(a, c, o) {
			check("OR a b = a union b", func(p int) bool { return in(o.set, p) == (in(a.set, p) || in(c.set, p)) }, a, c, o)
		}
	case "and":
		k1, k2 := b.drawKey(2), b.drawKey(2)
		a, c := run(k1), run(k2)

		var both outcome
		if chance(t, "rel-paren", 1, 2) {
			both = run(&command.SearchKeyList{Keys: []command.SearchKey{k1, k2}})
		} else {
			both = run(k1, k2)
		}

		if ok(a, c, both) {
			check("(a b) = a intersected with b", func(p int) bool { return in(both.set, p) == (in(a.set, p) && in(c.set, p)) }, a, c, both)
		}
	case "since-before":
		d := b.date("rel-date", false)
		s, bf := run(&command.SearchKeySince{Value: d}), run(&command.SearchKeyBefore{Value: d})

		if ok(s, bf) {
			check("SINCE d and BEFORE d partition the mailbox", func(p int) bool { return in(s.set, p) != in(bf.set, p) }, s, bf)
		}
	case "on":
		d := b.date("rel-date", false)
		on, s, bf := run(&command.SearchKeyOn{Value: d}), run(&command.SearchKeySince{Value: d}), run(&command.SearchKeyBefore{Value: d.AddDate(0, 0, 1)})

		if ok(on, s, bf) {
			check("ON d = SINCE d intersected with BEFORE d+1", func(p int) bool { return in(on.set, p) == (in(s.set, p) && in(bf.set, p)) }, on, s, bf)
		}
	case "uid-seq":
		// UID SEARCH returns the UIDs of the same messages
		keys := b.drawKeys(0)
		cs := drawCharset(t, keys)
		a, c := w.search(false, cs, keys, lab), w.search(true, cs, keys, lab)

		if ok(a, c) {
			check("SEARCH and UID SEARCH name the same messages", func(p int) bool { return in(a.set, p) == in(c.set, p) }, a, c)
		}
	}
}

var relations = []string{"not", "or", "and", "since-before", "on", "uid-seq"}

// ---- the property ------------------------------------------------------------------------------------------------

func runCase(t *rapid.T) {
	b, err := bed.Start(bed.Options{DisableParallelism: chance(t, "no-parallel", 1, 3)}, bed.UserSpec{Name: "user", Pass: "pass"})
	if err != nil {
		t.Fatalf("VERIF-INCONCLUSIVE: bed: %v", err)
	}

	defer b.Destroy()

	w := &world{t: t, b: b, u: b.Users[0], byUID: map[uint32]*gmsg{}, labels: map[string]bool{}}

	if w.o, err = b.Login("o", w.u); err != nil {
		t.Fatalf("VERIF-INCONCLUSIVE: login: %v", err)
	}

	defer w.o.Logout()

	defer func() {
		if w.s != nil {
			w.s.Logout()
		}
	}()

	w.build()
	w.v = w.probe(true)

	var hs []any

	for _, m := range w.v.Msgs {
		hs = append(hs, m.UID, m.Full, m.IDate.Unix(), fmt.Sprint(m.Flags[`\seen`], m.Flags[`\recent`], len(m.Flags)))
	}

	w.mhash = ev.Hash(hs...)

	if w.v.n() == 0 {
		w.labels["empty-view"] = true
	}

	for _, m := range w.v.Msgs {
		if m.Crossing {
			w.labels["zone-crosses-midnight"] = true
		}

		if m.G.Parts != nil {
			w.labels["multipart"] = true
		}

		if uint32(m.Seq) != m.UID {
			w.labels["seq-differs-from-uid"] = true
		}
	}

	bi := &biaser{t: t, v: w.v, all: w.all}

	for i, n := 0, ev.Pick(10, 12); i < n; i++ {
		minDepth := 0
		if i%2 == 1 {
			minDepth = intn(t, "min-depth", 2, 3)
		}

		keys := bi.drawKeys(minDepth)
		w.search(chance(t, "uid", 1, 2), drawCharset(t, keys), keys)
	}

	for i := 0; i < 3; i++ {
		w.relation(pick(t, "relation", relations))
	}

	// a charset the server does not support (unknown, or registered with IANA but not implemented): the search is
	// refused with a tagged NO (RFC 3501 6.4.4: [BADCHARSET]) or BAD, and the session goes on
	if chance(t, "refused-charset", 1, 2) {
		cs := flipCase(t, "charset", pick(t, "unsupported", []string{"UTF-7", "UTF-32", "ISO-2022-KR", "ISO-2022-CN", "ISO-10646-UCS-2", "BOCU-1", "SCSU", "CESU-8",
			"EBCDIC-US", "UNICODE-1-1-UTF-7", "x-verif-nope", "utf8mb4"}))
		keys := bi.drawKeys(0)
		parts, shown := encode(t, chance(t, "uid", 1, 2), cs, keys)
		r := w.s.DoParts(parts...)

		if r.Err != nil {
			w.fail("%s: connection failed: %v", shown, r.Err)
		}

		if r.Status != "NO" && r.Status != "BAD" {
			w.fail("%s: answered %s although the charset is not supported", shown, r.Status)
		}

		for _, un := range r.Untagged {
			if un.Keyword() == "SEARCH" {
				w.fail("%s: a SEARCH response was sent for a refused search: %s", shown, un.Raw)
			}
		}

		// (that the session is still usable is shown by the probe that follows; a NOOP here would flush the pending
		// EXPUNGEs of the stale views)

		ev.Case(true, ev.Hash(w.mhash, shown), "charset:unsupported", "refused:"+strings.ToLower(r.Status))
	}

	// the view must not have moved while it was searched
	if after := w.probe(false); !sameView(w.v, after) {
		inconclusive(t, b, "the view changed during the search phase:\nbefore:\n%s\nafter:\n%s", describeView(w.v), describeView(after))
	}

	if err := b.CheckPanics(); err != nil {
		t.Fatalf("C15 (crash during SEARCH): %v\nhistory:\n%s", err, b.Hist)
	}
}

func TestC15Search(t *testing.T) {
	ev.Checks(400, 2000)
	rapid.Check(t, runCase)
}
