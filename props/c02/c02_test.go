package c02

import (
	"strings"
	"testing"
	"time"

	"github.com/ProtonMail/gluon"
	"github.com/ProtonMail/gluon/imap"
	"pgregory.net/rapid"

	"verif/internal/bed"
	"verif/internal/ev"
	"verif/internal/imapc"
	"verif/internal/kf"
	"verif/internal/mach"
)

func lateLowerUID(s *mach.Sess) bool { return gluon.VerifOutOfOrderInserts(s.StateID) > 0 }

// quiesce brings the world to quiescence and checks every selected session against a fresh view.
func quiesce(t *rapid.T, w *mach.World, rec *mach.Rec) {
	if rec.Stop {
		return
	}

	w.EndIdles()
	w.ReleaseAll()

	for _, s := range w.FreeSelected(false) {
		// The property quantifies over the observer's own flushes, not over changes it makes itself: only passive
		// sessions are judged (a session's own in-line changes may overtake older queued ones; see DESIGN.md).
		if !s.Passive {
			continue
		}

		w.Noop(s)

		diff, err := w.QuiescentDiff(s)
		if err != nil {
			t.Fatalf("harness: %v\nhistory:\n%s", err, w.Bed.Hist)
		}

		if diff != "" {
			if lateLowerUID(s) && kf.Report(mach.KfLateLowerUID) {
				rec.Stop = true
				return
			}

			t.Fatalf("C02 violated at quiescence: %s\nhistory:\n%s", diff, w.Bed.Hist)
		}

		if s.Bulk > 0 {
			rec.Nontrivial = true
			s.Bulk = 0
		}

		w.Label("quiescent-check")
	}

	if err := w.Bed.CheckPanics(); err != nil {
		t.Fatalf("C02: %v\nhistory:\n%s", err, w.Bed.Hist)
	}
}

func run(t *rapid.T, deterministic bool) {
	nBoxes := rapid.IntRange(1, 3).Draw(t, "nBoxes")
	cfg := mach.Config{
		NSess:         rapid.IntRange(2, 4).Draw(t, "nSess"),
		NPassive:      1,
		Boxes:         []string{"INBOX", "A", "B"}[:nBoxes],
		Deterministic: deterministic,
		Prefill:       3,
		Opts:          bed.Options{DisableParallelism: rapid.Bool().Draw(t, "noParallel")},
	}

	if rapid.Bool().Draw(t, "idleBulk") {
		cfg.Opts.IdleBulk = 10 * time.Millisecond
	}

	w := mach.NewWorld(t, cfg)
	defer w.Close()

	rec := &mach.Rec{}
	rec.Op("cfg sess=%d boxes=%d det=%v bulk=%v", cfg.NSess, nBoxes, deterministic, cfg.Opts.IdleBulk)

	w.SelectAll(t, rec, 6)

	t.Repeat(w.Actions(rec, mach.Hooks{
		Weights: map[string]int{"store": 3, "fetch": 2, "release": 2, "connFlags": 1, "connBoxes": 1, "connCreate": 1},
		Extra: map[string]func(*rapid.T){
			"quiesce": func(t *rapid.T) { quiesce(t, w, rec); rec.Op("quiesce") },
		},
	}))

	quiesce(t, w, rec)

	if rec.Stop {
		ev.Case(false, 0, "known-finding-hit")
		return
	}

	labels := []string{}
	for l := range w.Labels {
		labels = append(labels, l)
	}

	ev.Case(rec.Nontrivial, ev.Hash(strings.Join(rec.Ops, ";")), labels...)

	if ev.WantSample() {
		ev.Sample(rec.Ops)
	}
}

func TestC02Deterministic(t *testing.T) {
	ev.Checks(250, 1500)
	rapid.Check(t, func(t *rapid.T) { run(t, true) })
}

func TestC02Racy(t *testing.T) {
	ev.Checks(60, 500)
	rapid.Check(t, func(t *rapid.T) { run(t, false) })
}

// fixed (e77a23a): a flag change or a removal of a message whose EXISTS responder was queued but not flushed yet was
// dropped; the observer then never learned the flag / kept the removed message.
func TestRegress_PendingExistsThenFlagAndRemoval(t *testing.T) {
	b, err := bed.Start(bed.Options{}, bed.UserSpec{Name: "user", Pass: "pass"})
	if err != nil {
		t.Fatal(err)
	}

	defer b.Destroy()

	u := b.Users[0]

	obs, err := b.Login("obs", u)
	if err != nil {
		t.Fatal(err)
	}

	defer obs.Logout()

	obs.Select("INBOX", false)
	obs.GateClose()

	mk := func(marker string) imap.MessageID {
		m, mc, err := u.Conn.NewRemoteMessage(mach.Msg(marker, ""), imap.NewFlagSet(), time.Unix(1600000000, 0), u.Inbox.ID)
		if err != nil {
			t.Fatal(err)
		}

		if d := b.DeliverNow(u, imap.NewMessagesCreated(false, mc)); d[0].Err != nil {
			t.Fatal(d[0].Err)
		}

		return m.ID
	}

	m1, m2 := mk("r1"), mk("r2")

	b.DeliverNow(u, imap.NewMessageFlagsUpdated(m1, imap.NewFlagSet(imap.FlagSeen)))
	b.DeliverNow(u, imap.NewMessagesDeleted(m2))

	// everything reaches the observer between two of its flushes
	obs.Release(-1)

	if err := b.Barrier(u); err != nil {
		t.Fatal(err)
	}

	obs.Do("NOOP")

	var view []bed.PMsg

	if _, err := obs.Probe(func(m []bed.PMsg) error { view = m; return nil }); err != nil {
		t.Fatal(err)
	}

	fresh, _, _, _, err := b.FreshView(u, "INBOX", false)
	if err != nil {
		t.Fatal(err)
	}

	if len(view) != len(fresh) || len(view) != 1 || !imapc.SameFlags(imapc.WithoutFlag(view[0].Flags, `\recent`), fresh[0].Flags) {
		t.Fatalf("C02 violated: observer sees %v, a new session sees %v\n%s", view, fresh, b.Hist)
	}
}

// known C02-stale-update-after-select: an addition queued before the session's SELECT is applied to the snapshot taken
// by that SELECT, after the session itself moved the message away.
func TestKnown_C02_stale_update_after_select(t *testing.T) {
	b, err := bed.Start(bed.Options{}, bed.UserSpec{Name: "user", Pass: "pass"})
	if err != nil {
		t.Fatal(err)
	}

	defer b.Destroy()

	u := b.Users[0]

	s, err := b.Login("s", u)
	if err != nil {
		t.Fatal(err)
	}

	defer s.Logout()

	if r := s.Do("CREATE A"); !r.OK() {
		t.Fatal(r)
	}

	s.GateClose()

	boxA := u.Conn.MailboxByName("A", "/")
	_, mc, _ := u.Conn.NewRemoteMessage(mach.Msg("g", ""), imap.NewFlagSet(), time.Unix(1600000000, 0), boxA.ID)
	b.DeliverNow(u, imap.NewMessagesCreated(false, mc)) // queued for s, held back

	s.Select("A", false)

	if r := s.Do("MOVE 1 INBOX"); !r.OK() {
		t.Fatal(r)
	}

	s.Release(-1)

	if err := b.Barrier(u); err != nil {
		t.Fatal(err)
	}

	s.Do("NOOP")

	var view []bed.PMsg

	if _, err := s.Probe(func(m []bed.PMsg) error { view = m; return nil }); err != nil {
		t.Fatal(err)
	}

	fresh, _, _, _, err := b.FreshView(u, "A", false)
	if err != nil {
		t.Fatal(err)
	}

	if len(view) == len(fresh) {
		return // no longer reproduces
	}

	if !kf.Report(mach.KfStaleAfterSelect) {
		t.Fatalf("C02 violated (stale update after SELECT, not listed as known): session sees %v, a new session sees %v\n%s", view, fresh, b.Hist)
	}
}

// fixed (829162d): another session moves a message onto its own mailbox (EXPUNGE + EXISTS for the observer), then the
// message's flags change. An observer whose next command may not send EXPUNGE held back the EXPUNGE and the EXISTS but
// applied the flag change to the old instance; the new instance then entered its view with the outdated flags.
func TestRegress_FlagChangeOfReaddedMessageBehindHeldExpunge(t *testing.T) {
	b, err := bed.Start(bed.Options{}, bed.UserSpec{Name: "user", Pass: "pass"})
	if err != nil {
		t.Fatal(err)
	}

	defer b.Destroy()

	u := b.Users[0]

	obs, err := b.Login("obs", u)
	if err != nil {
		t.Fatal(err)
	}

	defer obs.Logout()

	act, err := b.Login("act", u)
	if err != nil {
		t.Fatal(err)
	}

	defer act.Logout()

	m, mc, err := u.Conn.NewRemoteMessage(mach.Msg("r1", ""), imap.NewFlagSet(imap.FlagDraft), time.Unix(1600000000, 0), u.Inbox.ID)
	if err != nil {
		t.Fatal(err)
	}

	if d := b.DeliverNow(u, imap.NewMessagesCreated(false, mc)); d[0].Err != nil {
		t.Fatal(d[0].Err)
	}

	obs.Select("INBOX", false)
	act.Select("INBOX", false)

	if r := act.Do("MOVE 1 INBOX"); !r.OK() {
		t.Fatal(r)
	}

	b.DeliverNow(u, imap.NewMessageFlagsUpdated(m.ID, imap.NewFlagSet(imap.FlagSeen)))

	if err := b.Barrier(u); err != nil {
		t.Fatal(err)
	}

	// a command that may not send EXPUNGE, then one that may
	obs.Do("FETCH 1 (UID)")
	obs.Do("NOOP")

	var view []bed.PMsg

	if _, err := obs.Probe(func(m []bed.PMsg) error { view = m; return nil }); err != nil {
		t.Fatal(err)
	}

	fresh, _, _, _, err := b.FreshView(u, "INBOX", false)
	if err != nil {
		t.Fatal(err)
	}

	if len(view) != len(fresh) || len(view) != 1 || !imapc.SameFlags(imapc.WithoutFlag(view[0].Flags, `\recent`), fresh[0].Flags) {
		t.Fatalf("C02 violated: observer sees %v, a new session sees %v\n%s", view, fresh, b.Hist)
	}
}
