package c02

import (
	"testing"

	"verif/internal/ev"
)

func TestMain(m *testing.M) {
	ev.Main(m, "C02", "exploration",
		"rapid state machine (same rule set as C01: 2-4 sessions, connector updates, IDLE, re-SELECT) in which every session is an observer; the per-session gate decides how many queued updates are released before each of its commands (including none). At drawn quiescence points and at the end (gate fully released, verif barrier, NOOP) each selected session's probe must equal a freshly opened session's view of the same mailbox: same UIDs, same order, same flags ignoring \\Recent. Non-trivial: a case in which a checked session had received two or more held-back updates in one release (so later updates were applied while the responders of earlier ones were still unflushed); distinct by hash of the operation sequence.",
		"quiescence is defined through the verif barrier hook",
		"differential oracle between two views of the same server; no reference model involved")
}
