// Package ev records what a check actually covered and writes it as an evidence part file.
//
// Every props/cXX package calls ev.Main(m, "Cxx", level, rule) from TestMain. Checks call Case() once per generated
// case (with its non-triviality verdict, a 64-bit hash identifying the case and class labels) and Sample() to keep
// written-out cases. The driver (/verif/check) merges the part files of all shards into evidence/<id>.json.
package ev

import (
	"encoding/json"
	"flag"
	"fmt"
	"hash/fnv"
	"os"
	"path/filepath"
	"sort"
	"strconv"
	"sync"
	"testing"
	"time"
)

type recorder struct {
	sync.Mutex
	prop, level, rule string
	evaluations       int
	nontrivial        map[uint64]struct{}
	classes           map[string]int
	samples           []any
	sampleSeen        int
	excluded          int
	known             []string
	assumptions       []string
	extra             map[string]any
	start             time.Time
}

var rec = &recorder{nontrivial: map[uint64]struct{}{}, classes: map[string]int{}, extra: map[string]any{}}

// Tier returns "quick" or "thorough".
func Tier() string {
	if os.Getenv("VERIF_TIER") == "thorough" {
		return "thorough"
	}

	return "quick"
}

func Thorough() bool { return Tier() == "thorough" }

// Seed returns VERIF_SEED (default 1; 0 is remapped to 1).
func Seed() uint64 {
	s, err := strconv.ParseUint(os.Getenv("VERIF_SEED"), 10, 64)
	if err != nil || s == 0 {
		return 1
	}

	return s
}

// Shard returns the shard index and the shard count of this process.
func Shard() (int, int) {
	i, _ := strconv.Atoi(os.Getenv("VERIF_SHARD"))
	n, _ := strconv.Atoi(os.Getenv("VERIF_SHARDS"))

	if n <= 0 {
		n = 1
	}

	return i, n
}

// Checks sets the number of rapid checks for the calling test according to the tier.
// VERIF_SCALE (float) scales the number (used by the sensitivity runs to shorten or lengthen a run).
func Checks(quick, thorough int) int {
	n := quick
	if Thorough() {
		n = thorough
	}

	if sc, err := strconv.ParseFloat(os.Getenv("VERIF_SCALE"), 64); err == nil && sc > 0 {
		n = int(float64(n) * sc)
		if n < 1 {
			n = 1
		}
	}

	if f := flag.Lookup("rapid.checks"); f != nil {
		_ = f.Value.Set(strconv.Itoa(n))
	}

	return n
}

// ShrinkTime bounds rapid's shrinking for the tests that follow in this process (rapid checks the limit between two
// attempts; tests whose single case costs seconds - child processes, bulk data - should keep it short, otherwise a
// failure found early is only reported after the driver's deadline).
func ShrinkTime(d time.Duration) {
	if f := flag.Lookup("rapid.shrinktime"); f != nil {
		_ = f.Value.Set(d.String())
	}
}

// Pick returns quick or thorough according to the tier (for sizes / counts that are not rapid checks).
func Pick(quick, thorough int) int {
	if Thorough() {
		return thorough
	}

	return quick
}

// Main is the TestMain body of a property package.
func Main(m *testing.M, prop, level, rule string, assumptions ...string) {
	rec.prop, rec.level, rec.rule, rec.assumptions = prop, level, rule, assumptions
	rec.start = time.Now()

	if !flag.Parsed() {
		flag.Parse()
	}

	// the rapid seed: driver passes -rapid.seed; if it did not, derive from VERIF_SEED
	if f := flag.Lookup("rapid.seed"); f != nil && f.Value.String() == "0" {
		sh, _ := Shard()
		_ = f.Value.Set(strconv.FormatUint(Seed()*1000+uint64(sh), 10))
	}

	code := m.Run()

	flush(code)
	os.Exit(code)
}

// Hash hashes the printed form of the given values.
func Hash(vs ...any) uint64 {
	h := fnv.New64a()
	for _, v := range vs {
		fmt.Fprintf(h, "%v|", v)
	}

	return h.Sum64()
}

// Case records one generated case.
func Case(nontrivial bool, hash uint64, classes ...string) {
	rec.Lock()
	defer rec.Unlock()

	rec.evaluations++

	if nontrivial {
		rec.nontrivial[hash] = struct{}{}
	}

	for _, c := range classes {
		rec.classes[c]++
	}
}

// Class adds to the class histogram without counting a case.
func Class(class string, n int) {
	rec.Lock()
	defer rec.Unlock()

	rec.classes[class] += n
}

// Sample offers a written-out case; the first 3 and then a thinning selection are kept (at most 8).
func Sample(v any) {
	rec.Lock()
	defer rec.Unlock()

	rec.sampleSeen++

	switch {
	case len(rec.samples) < 3:
		rec.samples = append(rec.samples, v)
	case len(rec.samples) < 8 && rec.sampleSeen&(rec.sampleSeen-1) == 0: // powers of two
		rec.samples = append(rec.samples, v)
	}
}

// WantSample tells whether the next Sample call would be kept (so callers can avoid building large values).
func WantSample() bool {
	rec.Lock()
	defer rec.Unlock()

	n := rec.sampleSeen + 1

	return len(rec.samples) < 3 || (len(rec.samples) < 8 && n&(n-1) == 0)
}

// Excluded counts cases steered away from a listed known finding.
func Excluded(n int) {
	rec.Lock()
	defer rec.Unlock()

	rec.excluded += n
}

// Known records that a listed known finding was reproduced (the KNOWN-FINDING line is printed to stdout).
func Known(prop, what string) {
	rec.Lock()
	rec.known = append(rec.known, what)
	rec.Unlock()

	fmt.Printf("KNOWN-FINDING: property=%s %s\n", prop, what)
}

// Extra stores an additional coverage key.
func Extra(key string, v any) {
	rec.Lock()
	defer rec.Unlock()

	rec.extra[key] = v
}

type part struct {
	Property    string         `json:"property_id"`
	Level       string         `json:"level"`
	Rule        string         `json:"rule"`
	Evaluations int            `json:"evaluations"`
	Nontrivial  []uint64       `json:"nontrivial_hashes"`
	Classes     map[string]int `json:"classes"`
	Samples     []any          `json:"samples"`
	Excluded    int            `json:"excluded_known"`
	Known       []string       `json:"known_findings_reproduced"`
	Assumptions []string       `json:"assumptions"`
	Extra       map[string]any `json:"extra"`
	WallS       float64        `json:"wall_s"`
	ExitCode    int            `json:"exit_code"`
}

func flush(code int) {
	dir := os.Getenv("VERIF_PARTS_DIR")
	if dir == "" {
		return
	}

	rec.Lock()
	defer rec.Unlock()

	p := part{
		Property: rec.prop, Level: rec.level, Rule: rec.rule, Evaluations: rec.evaluations,
		Classes: rec.classes, Samples: rec.samples, Excluded: rec.excluded, Known: rec.known,
		Assumptions: rec.assumptions, Extra: rec.extra, WallS: time.Since(rec.start).Seconds(), ExitCode: code,
	}

	for h := range rec.nontrivial {
		p.Nontrivial = append(p.Nontrivial, h)
	}

	sort.Slice(p.Nontrivial, func(i, j int) bool { return p.Nontrivial[i] < p.Nontrivial[j] })

	b, err := json.Marshal(p)
	if err != nil {
		// samples must be JSON-encodable; fall back to their printed form
		for i, s := range p.Samples {
			p.Samples[i] = fmt.Sprintf("%+v", s)
		}

		b, _ = json.Marshal(p)
	}

	sh, _ := Shard()
	_ = os.MkdirAll(dir, 0o755)
	name := filepath.Join(dir, fmt.Sprintf("%s.%d.%d.json", rec.prop, sh, os.Getpid()))
	_ = os.WriteFile(name, b, 0o644)
}
