package vconn

import "github.com/ProtonMail/gluon/imap"

// TakeOutbox removes and returns the undelivered updates (the echoes of the server's own actions under the Faithful
// policy) so that a check can inspect them, deliver them itself with DeliverNow and deliver rebuilt copies again (C06).
func (c *Conn) TakeOutbox() []imap.Update {
	c.mu.Lock()
	defer c.mu.Unlock()

	res := c.outbox
	c.outbox = nil

	return res
}
