// Package vconn is the harness connector: an implementation of gluon's public connector.Connector with an explicit
// remote model, an outbox of updates that the test (not a timer) delivers, a drawn echo policy and a drawn fault
// schedule. See DESIGN.md §1.3.
package vconn

import (
	"context"
	"errors"
	"fmt"
	"sort"
	"strings"
	"sync"
	"time"

	"github.com/ProtonMail/gluon/connector"
	"github.com/ProtonMail/gluon/imap"
)

// Echo policy for server-initiated actions.
type Echo int

const (
	Silent   Echo = iota // never echoes
	Faithful             // echoes exactly the resulting remote state (like connector.Dummy / Proton bridge)
)

var ErrInjected = errors.New("vconn: injected remote failure")

// RMailbox is a mailbox of the remote model.
type RMailbox struct {
	ID   imap.MailboxID
	Name []string
}

// RMessage is a message of the remote model.
type RMessage struct {
	ID      imap.MessageID
	Literal []byte
	Flags   imap.FlagSet
	Date    time.Time
	Boxes   map[imap.MailboxID]bool
}

// Delivery records what happened to one delivered update.
type Delivery struct {
	Update  string
	Err     error
	Acked   bool // the waiter fired within the watchdog
	Elapsed time.Duration
}

type Conn struct {
	mu sync.Mutex

	Usernames []string
	Password  []byte

	Flags, PermFlags, Attrs imap.FlagSet

	Echo          Echo
	MoveRemoves   bool // result of MoveMessages: true = folder semantics
	NoLiteral     bool // GetMessageLiteral fails
	DedupLiterals bool // CreateMessage returns the ID of an existing message with identical literal

	// Fail decides whether the n-th call (from 0) of a method fails; nil = never.
	Fail func(method string, n int) error
	nCalls map[string]int
	Calls  []string // log of connector calls (method + short args)

	Mailboxes map[imap.MailboxID]*RMailbox
	Messages  map[imap.MessageID]*RMessage
	nextMbox  int
	nextMsg   int

	Visibility map[imap.MailboxID]imap.MailboxVisibility

	updateCh chan imap.Update
	doneCh   chan struct{}
	closed   bool
	outbox   []imap.Update

	Watchdog   time.Duration
	Deliveries []Delivery
}

func New(usernames []string, password string) *Conn {
	flags := imap.NewFlagSet(imap.FlagSeen, imap.FlagFlagged, imap.FlagDeleted, imap.FlagAnswered, imap.FlagDraft)

	c := &Conn{
		Usernames:   usernames,
		Password:    []byte(password),
		Flags:       flags,
		PermFlags:   flags,
		Attrs:       imap.NewFlagSet(),
		MoveRemoves: true,
		nCalls:      map[string]int{},
		Mailboxes:   map[imap.MailboxID]*RMailbox{},
		Messages:    map[imap.MessageID]*RMessage{},
		Visibility:  map[imap.MailboxID]imap.MailboxVisibility{},
		updateCh:    make(chan imap.Update),
		doneCh:      make(chan struct{}),
		Watchdog:    60 * time.Second,
	}

	return c
}

// Reopen prepares the connector for use by a restarted server (a closed update channel cannot be reused).
func (c *Conn) Reopen() {
	c.mu.Lock()
	defer c.mu.Unlock()

	c.updateCh = make(chan imap.Update)
	c.doneCh = make(chan struct{})
	c.closed = false
}

func (c *Conn) fail(method string, args ...any) error {
	n := c.nCalls[method]
	c.nCalls[method] = n + 1
	c.Calls = append(c.Calls, fmt.Sprintf("%s%v", method, args))

	if c.Fail != nil {
		return c.Fail(method, n)
	}

	return nil
}

// ---- connector.Connector ----

func (c *Conn) Init(context.Context, connector.IMAPState) error { return nil }

func (c *Conn) Authorize(_ context.Context, username string, password []byte) bool {
	c.mu.Lock()
	defer c.mu.Unlock()

	if string(password) != string(c.Password) {
		return false
	}

	for _, u := range c.Usernames {
		if u == username {
			return true
		}
	}

	return false
}

func (c *Conn) GetUpdates() <-chan imap.Update { return c.updateCh }

func (c *Conn) Close(context.Context) error {
	c.mu.Lock()
	defer c.mu.Unlock()

	// The update channel is not closed (a concurrent Deliver would panic on it): gluon stops reading when it closes
	// the connector; pending deliveries are released through doneCh.
	if !c.closed {
		c.closed = true
		close(c.doneCh)
	}

	return nil
}

func (c *Conn) newMailboxLocked(name []string) *RMailbox {
	c.nextMbox++
	mb := &RMailbox{ID: imap.MailboxID(fmt.Sprintf("mb-%d", c.nextMbox)), Name: append([]string(nil), name...)}
	c.Mailboxes[mb.ID] = mb

	return mb
}

func (c *Conn) imapMailbox(mb *RMailbox) imap.Mailbox {
	return imap.Mailbox{ID: mb.ID, Name: append([]string(nil), mb.Name...), Flags: c.Flags, PermanentFlags: c.PermFlags, Attributes: c.Attrs}
}

func (c *Conn) CreateMailbox(_ context.Context, _ connector.IMAPStateWrite, name []string) (imap.Mailbox, error) {
	c.mu.Lock()
	defer c.mu.Unlock()

	if err := c.fail("CreateMailbox", name); err != nil {
		return imap.Mailbox{}, err
	}

	mb := c.newMailboxLocked(name)
	res := c.imapMailbox(mb)

	if c.Echo == Faithful {
		c.outbox = append(c.outbox, imap.NewMailboxCreated(res))
	}

	return res, nil
}

func (c *Conn) UpdateMailboxName(_ context.Context, _ connector.IMAPStateWrite, mboxID imap.MailboxID, newName []string) error {
	c.mu.Lock()
	defer c.mu.Unlock()

	if err := c.fail("UpdateMailboxName", mboxID, newName); err != nil {
		return err
	}

	mb, ok := c.Mailboxes[mboxID]
	if !ok {
		return connector.ErrNoSuchMailbox
	}

	mb.Name = append([]string(nil), newName...)

	if c.Echo == Faithful {
		c.outbox = append(c.outbox, imap.NewMailboxUpdated(mboxID, append([]string(nil), newName...)))
	}

	return nil
}

func (c *Conn) DeleteMailbox(_ context.Context, _ connector.IMAPStateWrite, mboxID imap.MailboxID) error {
	c.mu.Lock()
	defer c.mu.Unlock()

	if err := c.fail("DeleteMailbox", mboxID); err != nil {
		return err
	}

	delete(c.Mailboxes, mboxID)

	for _, m := range c.Messages {
		delete(m.Boxes, mboxID)
	}

	if c.Echo == Faithful {
		c.outbox = append(c.outbox, imap.NewMailboxDeleted(mboxID))
	}

	return nil
}

func (c *Conn) GetMessageLiteral(_ context.Context, id imap.MessageID) ([]byte, error) {
	c.mu.Lock()
	defer c.mu.Unlock()

	c.Calls = append(c.Calls, fmt.Sprintf("GetMessageLiteral[%v]", id))

	if c.NoLiteral {
		return nil, connector.ErrNoSuchMessage
	}

	m, ok := c.Messages[id]
	if !ok {
		return nil, connector.ErrNoSuchMessage
	}

	return append([]byte(nil), m.Literal...), nil
}

func (c *Conn) GetMailboxVisibility(_ context.Context, id imap.MailboxID) imap.MailboxVisibility {
	c.mu.Lock()
	defer c.mu.Unlock()

	if v, ok := c.Visibility[id]; ok {
		return v
	}

	return imap.Visible
}

func (c *Conn) CreateMessage(_ context.Context, _ connector.IMAPStateWrite, mboxID imap.MailboxID, literal []byte, flags imap.FlagSet, date time.Time) (imap.Message, []byte, error) {
	c.mu.Lock()
	defer c.mu.Unlock()

	if err := c.fail("CreateMessage", mboxID, len(literal)); err != nil {
		return imap.Message{}, nil, err
	}

	if c.DedupLiterals {
		for _, id := range c.sortedMessageIDsLocked() {
			m := c.Messages[id]
			if string(m.Literal) == string(literal) {
				m.Boxes[mboxID] = true
				return imap.Message{ID: m.ID, Flags: m.Flags, Date: m.Date}, append([]byte(nil), literal...), nil
			}
		}
	}

	c.nextMsg++
	m := &RMessage{
		ID:      imap.MessageID(fmt.Sprintf("msg-%d", c.nextMsg)),
		Literal: append([]byte(nil), literal...),
		Flags:   flags.Clone(),
		Date:    date,
		Boxes:   map[imap.MailboxID]bool{mboxID: true},
	}
	c.Messages[m.ID] = m

	if c.Echo == Faithful {
		if parsed, err := imap.NewParsedMessage(literal); err == nil {
			c.outbox = append(c.outbox, imap.NewMessagesCreated(false, &imap.MessageCreated{
				Message:       imap.Message{ID: m.ID, Flags: m.Flags.Clone(), Date: m.Date},
				Literal:       append([]byte(nil), literal...),
				MailboxIDs:    []imap.MailboxID{mboxID},
				ParsedMessage: parsed,
			}))
		}
	}

	return imap.Message{ID: m.ID, Flags: m.Flags.Clone(), Date: m.Date}, append([]byte(nil), literal...), nil
}

func (c *Conn) sortedMessageIDsLocked() []imap.MessageID {
	ids := make([]imap.MessageID, 0, len(c.Messages))
	for id := range c.Messages {
		ids = append(ids, id)
	}

	sort.Slice(ids, func(i, j int) bool {
		if len(ids[i]) != len(ids[j]) {
			return len(ids[i]) < len(ids[j])
		}

		return ids[i] < ids[j]
	})

	return ids
}

// RemoteFlags restricts a flag set to what a connector reports in spontaneous updates: the system flags it keeps as
// labels. \Deleted is a per-mailbox flag of the IMAP side (the repository's dummy connector never reports it either)
// and keywords do not exist remotely. (The Faithful echo policy, used by C06 only, restates the flags exactly as the
// server handed them over: its model is built on that.)
func RemoteFlags(flags imap.FlagSet) imap.FlagSet {
	res := imap.NewFlagSet()

	for _, f := range []string{imap.FlagSeen, imap.FlagFlagged, imap.FlagAnswered, imap.FlagDraft} {
		if flags.Contains(f) {
			res.AddToSelf(f)
		}
	}

	return res
}

func (c *Conn) boxesLocked(m *RMessage) []imap.MailboxID {
	res := make([]imap.MailboxID, 0, len(m.Boxes))
	for id := range m.Boxes {
		res = append(res, id)
	}

	sort.Slice(res, func(i, j int) bool { return res[i] < res[j] })

	return res
}

func (c *Conn) echoBoxesLocked(id imap.MessageID) {
	if c.Echo != Faithful {
		return
	}

	if m, ok := c.Messages[id]; ok {
		c.outbox = append(c.outbox, imap.NewMessageMailboxesUpdated(id, c.boxesLocked(m), m.Flags.Clone()))
	}
}

func (c *Conn) AddMessagesToMailbox(_ context.Context, _ connector.IMAPStateWrite, messageIDs []imap.MessageID, mboxID imap.MailboxID) error {
	c.mu.Lock()
	defer c.mu.Unlock()

	if err := c.fail("AddMessagesToMailbox", len(messageIDs), mboxID); err != nil {
		return err
	}

	for _, id := range messageIDs {
		if m, ok := c.Messages[id]; ok {
			m.Boxes[mboxID] = true
		}

		c.echoBoxesLocked(id)
	}

	return nil
}

func (c *Conn) RemoveMessagesFromMailbox(_ context.Context, _ connector.IMAPStateWrite, messageIDs []imap.MessageID, mboxID imap.MailboxID) error {
	c.mu.Lock()
	defer c.mu.Unlock()

	if err := c.fail("RemoveMessagesFromMailbox", len(messageIDs), mboxID); err != nil {
		return err
	}

	for _, id := range messageIDs {
		if m, ok := c.Messages[id]; ok {
			delete(m.Boxes, mboxID)
		}

		c.echoBoxesLocked(id)
	}

	return nil
}

func (c *Conn) MoveMessages(_ context.Context, _ connector.IMAPStateWrite, messageIDs []imap.MessageID, from, to imap.MailboxID) (bool, error) {
	c.mu.Lock()
	defer c.mu.Unlock()

	if err := c.fail("MoveMessages", len(messageIDs), from, to); err != nil {
		return false, err
	}

	for _, id := range messageIDs {
		if m, ok := c.Messages[id]; ok {
			if c.MoveRemoves {
				delete(m.Boxes, from)
			}

			m.Boxes[to] = true
		}

		c.echoBoxesLocked(id)
	}

	return c.MoveRemoves, nil
}

func (c *Conn) mark(method string, messageIDs []imap.MessageID, flag string, on bool) error {
	c.mu.Lock()
	defer c.mu.Unlock()

	if err := c.fail(method, len(messageIDs), on); err != nil {
		return err
	}

	for _, id := range messageIDs {
		if m, ok := c.Messages[id]; ok {
			if on {
				m.Flags = m.Flags.Add(flag)
			} else {
				m.Flags = m.Flags.Remove(flag)
			}

			if c.Echo == Faithful {
				c.outbox = append(c.outbox, imap.NewMessageFlagsUpdated(id, m.Flags.Clone()))
			}
		}
	}

	return nil
}

func (c *Conn) MarkMessagesSeen(_ context.Context, _ connector.IMAPStateWrite, ids []imap.MessageID, seen bool) error {
	return c.mark("MarkMessagesSeen", ids, imap.FlagSeen, seen)
}

func (c *Conn) MarkMessagesFlagged(_ context.Context, _ connector.IMAPStateWrite, ids []imap.MessageID, flagged bool) error {
	return c.mark("MarkMessagesFlagged", ids, imap.FlagFlagged, flagged)
}

func (c *Conn) MarkMessagesForwarded(_ context.Context, _ connector.IMAPStateWrite, ids []imap.MessageID, forwarded bool) error {
	return c.mark("MarkMessagesForwarded", ids, "$Forwarded", forwarded)
}

// ---- harness side ----

// SeedMailbox adds a mailbox to the remote model and returns the update that creates it in gluon.
func (c *Conn) SeedMailbox(name ...string) (*RMailbox, imap.Update) {
	c.mu.Lock()
	defer c.mu.Unlock()

	mb := c.newMailboxLocked(name)

	return mb, imap.NewMailboxCreated(c.imapMailbox(mb))
}

// NewRemoteMessage adds a message to the remote model (not yet known to gluon) and returns the MessageCreated element.
func (c *Conn) NewRemoteMessage(literal []byte, flags imap.FlagSet, date time.Time, boxes ...imap.MailboxID) (*RMessage, *imap.MessageCreated, error) {
	c.mu.Lock()
	defer c.mu.Unlock()

	parsed, err := imap.NewParsedMessage(literal)
	if err != nil {
		return nil, nil, err
	}

	c.nextMsg++
	m := &RMessage{
		ID:      imap.MessageID(fmt.Sprintf("msg-%d", c.nextMsg)),
		Literal: append([]byte(nil), literal...),
		Flags:   flags.Clone(),
		Date:    date,
		Boxes:   map[imap.MailboxID]bool{},
	}

	for _, b := range boxes {
		m.Boxes[b] = true
	}

	c.Messages[m.ID] = m

	return m, &imap.MessageCreated{
		Message:       imap.Message{ID: m.ID, Flags: flags.Clone(), Date: date},
		Literal:       append([]byte(nil), literal...),
		MailboxIDs:    append([]imap.MailboxID(nil), boxes...),
		ParsedMessage: parsed,
	}, nil
}

// Lock runs fn with the connector's state locked.
func (c *Conn) Lock(fn func()) {
	c.mu.Lock()
	defer c.mu.Unlock()

	fn()
}

// Push appends an update to the outbox.
func (c *Conn) Push(u ...imap.Update) {
	c.mu.Lock()
	defer c.mu.Unlock()

	c.outbox = append(c.outbox, u...)
}

// Pending returns the number of undelivered updates.
func (c *Conn) Pending() int {
	c.mu.Lock()
	defer c.mu.Unlock()

	return len(c.outbox)
}

// DropOutbox discards undelivered updates and returns how many there were.
func (c *Conn) DropOutbox() int {
	c.mu.Lock()
	defer c.mu.Unlock()

	n := len(c.outbox)
	c.outbox = nil

	return n
}

// ErrClosed is recorded when the connector was closed (user removed / server closed) before the update was taken.
var ErrClosed = errors.New("vconn: connector closed")

// ErrNotAcked is recorded when an update was not acknowledged within the watchdog.
var ErrNotAcked = errors.New("vconn: update not acknowledged within the watchdog")

// Deliver sends the next k updates (all if k < 0) to gluon one by one, waiting for each acknowledgement.
func (c *Conn) Deliver(k int) []Delivery {
	var res []Delivery

	for i := 0; k < 0 || i < k; i++ {
		c.mu.Lock()
		if len(c.outbox) == 0 || c.closed {
			c.mu.Unlock()
			break
		}

		u := c.outbox[0]
		c.outbox = c.outbox[1:]
		ch := c.updateCh
		c.mu.Unlock()

		res = append(res, c.deliverOne(ch, u))
	}

	return res
}

// DeliverNow delivers the given updates immediately (bypassing the outbox order) and waits for each.
func (c *Conn) DeliverNow(us ...imap.Update) []Delivery {
	c.mu.Lock()
	ch := c.updateCh
	c.mu.Unlock()

	var res []Delivery
	for _, u := range us {
		res = append(res, c.deliverOne(ch, u))
	}

	return res
}

func (c *Conn) deliverOne(ch chan imap.Update, u imap.Update) Delivery {
	start := time.Now()
	d := Delivery{Update: u.String()}

	timer := time.NewTimer(c.Watchdog)
	defer timer.Stop()

	c.mu.Lock()
	done := c.doneCh
	c.mu.Unlock()

	select {
	case ch <- u:
	case <-done:
		d.Err = ErrClosed
		d.Elapsed = time.Since(start)
		c.record(d)

		return d
	case <-timer.C:
		d.Err = ErrNotAcked
		d.Elapsed = time.Since(start)
		c.record(d)

		return d
	}

	ctx, cancel := context.WithTimeout(context.Background(), c.Watchdog)
	defer cancel()

	go func() {
		select {
		case <-done:
			// closed while waiting: give the update goroutine a moment to acknowledge, then stop waiting
			time.Sleep(50 * time.Millisecond)
			cancel()
		case <-ctx.Done():
		}
	}()

	err, ok := u.WaitContext(ctx)

	switch {
	case ctx.Err() != nil:
		d.Err = ErrNotAcked

		select {
		case <-done:
			d.Err = ErrClosed
		default:
		}
	case ok:
		d.Err, d.Acked = err, true
	default: // channel closed without a value: success
		d.Acked = true
	}

	d.Elapsed = time.Since(start)
	c.record(d)

	return d
}

func (c *Conn) record(d Delivery) {
	c.mu.Lock()
	defer c.mu.Unlock()

	c.Deliveries = append(c.Deliveries, d)
}

// MailboxByName finds a remote mailbox by its joined name.
func (c *Conn) MailboxByName(name string, delim string) *RMailbox {
	c.mu.Lock()
	defer c.mu.Unlock()

	for _, mb := range c.Mailboxes {
		if strings.Join(mb.Name, delim) == name {
			return mb
		}
	}

	return nil
}

// CallCount returns how often a connector method was called.
func (c *Conn) CallCount(method string) int {
	c.mu.Lock()
	defer c.mu.Unlock()

	return c.nCalls[method]
}
