package vconn

import (
	"sort"
	"time"

	"github.com/ProtonMail/gluon/imap"
)

// Snapshot is the JSON-encodable remote model of a Conn (mailboxes, messages, id counters, switches). It lets another
// process (C07's crash child) continue with the same remote side: ids handed out later do not collide with ids that
// gluon's database already knows.

type SnapMailbox struct {
	ID   string   `json:"id"`
	Name []string `json:"name"`
}

type SnapMessage struct {
	ID      string    `json:"id"`
	Literal []byte    `json:"literal"`
	Flags   []string  `json:"flags"`
	Date    time.Time `json:"date"`
	Boxes   []string  `json:"boxes"`
}

type Snapshot struct {
	Usernames     []string      `json:"usernames"`
	Password      string        `json:"password"`
	Mailboxes     []SnapMailbox `json:"mailboxes"`
	Messages      []SnapMessage `json:"messages"`
	NextMbox      int           `json:"next_mbox"`
	NextMsg       int           `json:"next_msg"`
	MoveRemoves   bool          `json:"move_removes"`
	NoLiteral     bool          `json:"no_literal"`
	DedupLiterals bool          `json:"dedup_literals"`
	Echo          int           `json:"echo"`
}

// Snapshot returns a deep copy of the remote model.
func (c *Conn) Snapshot() Snapshot {
	c.mu.Lock()
	defer c.mu.Unlock()

	s := Snapshot{
		Usernames: append([]string(nil), c.Usernames...), Password: string(c.Password),
		NextMbox: c.nextMbox, NextMsg: c.nextMsg,
		MoveRemoves: c.MoveRemoves, NoLiteral: c.NoLiteral, DedupLiterals: c.DedupLiterals, Echo: int(c.Echo),
	}

	for _, mb := range c.Mailboxes {
		s.Mailboxes = append(s.Mailboxes, SnapMailbox{ID: string(mb.ID), Name: append([]string(nil), mb.Name...)})
	}

	sort.Slice(s.Mailboxes, func(i, j int) bool { return s.Mailboxes[i].ID < s.Mailboxes[j].ID })

	for _, m := range c.Messages {
		sm := SnapMessage{ID: string(m.ID), Literal: append([]byte(nil), m.Literal...), Flags: m.Flags.ToSlice(), Date: m.Date}
		for b := range m.Boxes {
			sm.Boxes = append(sm.Boxes, string(b))
		}

		sort.Strings(sm.Boxes)
		s.Messages = append(s.Messages, sm)
	}

	sort.Slice(s.Messages, func(i, j int) bool { return s.Messages[i].ID < s.Messages[j].ID })

	return s
}

// FromSnapshot builds a connector whose remote model equals the snapshot.
func FromSnapshot(s Snapshot) *Conn {
	c := New(append([]string(nil), s.Usernames...), s.Password)
	c.nextMbox, c.nextMsg = s.NextMbox, s.NextMsg
	c.MoveRemoves, c.NoLiteral, c.DedupLiterals, c.Echo = s.MoveRemoves, s.NoLiteral, s.DedupLiterals, Echo(s.Echo)

	for _, mb := range s.Mailboxes {
		c.Mailboxes[imap.MailboxID(mb.ID)] = &RMailbox{ID: imap.MailboxID(mb.ID), Name: append([]string(nil), mb.Name...)}
	}

	for _, m := range s.Messages {
		rm := &RMessage{
			ID: imap.MessageID(m.ID), Literal: append([]byte(nil), m.Literal...), Flags: imap.NewFlagSetFromSlice(m.Flags),
			Date: m.Date, Boxes: map[imap.MailboxID]bool{},
		}

		for _, b := range m.Boxes {
			rm.Boxes[imap.MailboxID(b)] = true
		}

		c.Messages[rm.ID] = rm
	}

	return c
}

// PeekNextMessageID returns the id the next CreateMessage / NewRemoteMessage will hand out.
func (c *Conn) PeekNextMessageID() imap.MessageID {
	c.mu.Lock()
	defer c.mu.Unlock()

	return imap.MessageID("msg-" + itoa(c.nextMsg+1))
}

func itoa(n int) string {
	if n == 0 {
		return "0"
	}

	var b []byte
	for ; n > 0; n /= 10 {
		b = append([]byte{byte('0' + n%10)}, b...)
	}

	return string(b)
}
