package imapc

import (
	"fmt"
	"sort"
	"strconv"
	"strings"
)

// FetchItems returns the data items of an untagged FETCH response keyed by upper-cased item name.
func FetchItems(r *Response) (map[string]Token, bool) {
	if len(r.Tokens) < 3 || r.Tokens[2].Kind != List {
		return nil, false
	}

	items := r.Tokens[2].Items
	res := make(map[string]Token, len(items)/2)

	for i := 0; i+1 < len(items); i += 2 {
		if items[i].Kind != Atom {
			return nil, false
		}

		res[strings.ToUpper(items[i].Str)] = items[i+1]
	}

	if len(items)%2 != 0 {
		return nil, false
	}

	return res, true
}

// FlagSet normalises a FLAGS list token: lower-cased, sorted, de-duplicated.
func FlagSet(t Token) []string {
	seen := map[string]bool{}

	var res []string

	for _, it := range t.Items {
		f := strings.ToLower(it.Str)
		if !seen[f] {
			seen[f] = true

			res = append(res, f)
		}
	}

	sort.Strings(res)

	return res
}

// NormFlags lower-cases, sorts and de-duplicates flag names.
func NormFlags(flags []string) []string {
	seen := map[string]bool{}

	res := []string{}

	for _, f := range flags {
		f = strings.ToLower(f)
		if !seen[f] {
			seen[f] = true

			res = append(res, f)
		}
	}

	sort.Strings(res)

	return res
}

func WithoutFlag(flags []string, drop string) []string {
	res := []string{}

	for _, f := range flags {
		if f != drop {
			res = append(res, f)
		}
	}

	return res
}

func SameFlags(a, b []string) bool {
	if len(a) != len(b) {
		return false
	}

	for i := range a {
		if a[i] != b[i] {
			return false
		}
	}

	return true
}

// MMsg is what a client knows about one message of the selected mailbox.
type MMsg struct {
	UID        uint32
	UIDKnown   bool
	Flags      []string // normalised
	FlagsKnown bool
}

// Mirror is the mailbox a client reconstructs purely from untagged EXISTS / EXPUNGE / FETCH responses.
type Mirror struct {
	Msgs     []MMsg
	Problems []string // structural violations of the response stream
	// counters for evidence
	NExists, NExpunge, NFetch int
}

func (m *Mirror) problem(format string, a ...any) {
	m.Problems = append(m.Problems, fmt.Sprintf(format, a...))
}

// Reset starts a new selection with n messages about which nothing is known.
func (m *Mirror) Reset(n int) {
	m.Msgs = make([]MMsg, n)
	m.Problems = nil
}

// Apply applies one untagged response. Responses other than EXISTS / EXPUNGE / FETCH are ignored.
func (m *Mirror) Apply(r *Response) {
	n, kw, ok := r.Num()
	if !ok {
		return
	}

	switch kw {
	case "EXISTS":
		m.NExists++

		if int(n) < len(m.Msgs) {
			m.problem("EXISTS %d lowers the count %d without EXPUNGE", n, len(m.Msgs))
			m.Msgs = m.Msgs[:n]

			return
		}

		for len(m.Msgs) < int(n) {
			m.Msgs = append(m.Msgs, MMsg{})
		}

	case "EXPUNGE":
		m.NExpunge++

		if n < 1 || int(n) > len(m.Msgs) {
			m.problem("EXPUNGE %d outside 1..%d", n, len(m.Msgs))
			return
		}

		m.Msgs = append(m.Msgs[:n-1], m.Msgs[n:]...)

	case "FETCH":
		m.NFetch++

		if n < 1 || int(n) > len(m.Msgs) {
			m.problem("FETCH %d outside 1..%d: %s", n, len(m.Msgs), r.Raw)
			return
		}

		items, ok := FetchItems(r)
		if !ok {
			m.problem("malformed FETCH: %s", r.Raw)
			return
		}

		msg := &m.Msgs[n-1]

		if t, ok := items["UID"]; ok {
			uid, err := strconv.ParseUint(t.Str, 10, 32)
			if err != nil {
				m.problem("bad UID in %s", r.Raw)
			} else {
				if msg.UIDKnown && msg.UID != uint32(uid) {
					m.problem("FETCH %d says UID %d but the client knows UID %d at that position", n, uid, msg.UID)
				}

				msg.UID, msg.UIDKnown = uint32(uid), true
			}
		}

		if t, ok := items["FLAGS"]; ok {
			msg.Flags, msg.FlagsKnown = FlagSet(t), true
		}
	}
}

// CheckAscending verifies that the known UIDs are strictly ascending.
func (m *Mirror) CheckAscending() error {
	var last uint32

	for i, msg := range m.Msgs {
		if !msg.UIDKnown {
			continue
		}

		if msg.UID <= last {
			return fmt.Errorf("UIDs not strictly ascending at seq %d: %d after %d", i+1, msg.UID, last)
		}

		last = msg.UID
	}

	return nil
}

// ForgetFlags marks the flags of the given 0-based positions unknown.
func (m *Mirror) ForgetFlags(idx ...int) {
	for _, i := range idx {
		if i >= 0 && i < len(m.Msgs) {
			m.Msgs[i].FlagsKnown = false
			m.Msgs[i].Flags = nil
		}
	}
}

func (m *Mirror) String() string {
	var sb strings.Builder

	for i, msg := range m.Msgs {
		uid, fl := "?", "?"
		if msg.UIDKnown {
			uid = strconv.Itoa(int(msg.UID))
		}

		if msg.FlagsKnown {
			fl = strings.Join(msg.Flags, ",")
		}

		fmt.Fprintf(&sb, "%d:uid=%s[%s] ", i+1, uid, fl)
	}

	return sb.String()
}

// UIDs returns the UIDs (0 where unknown).
func (m *Mirror) UIDs() []uint32 {
	res := make([]uint32, len(m.Msgs))
	for i, msg := range m.Msgs {
		if msg.UIDKnown {
			res[i] = msg.UID
		}
	}

	return res
}
