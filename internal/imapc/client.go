// Package imapc is a minimal IMAP client for the checks: it sends raw command text, tokenises server output
// (atoms, quoted strings, literals with announced length, nested lists) and keeps a history of everything sent
// and received. It deliberately has no knowledge of gluon.
package imapc

import (
	"bufio"
	"bytes"
	"errors"
	"fmt"
	"io"
	"net"
	"strconv"
	"strings"
	"sync"
	"time"
)

// Kind of a token.
type Kind int

const (
	Atom Kind = iota
	Quoted
	Literal
	List
)

// Token is one element of a tokenised response.
type Token struct {
	Kind  Kind
	Str   string  // Atom, Quoted (unescaped), Literal (as string)
	Items []Token // List
}

func (t Token) String() string {
	switch t.Kind {
	case Atom:
		return t.Str
	case Quoted:
		return strconv.Quote(t.Str)
	case Literal:
		return fmt.Sprintf("{%d}%q", len(t.Str), t.Str)
	default:
		parts := make([]string, len(t.Items))
		for i, it := range t.Items {
			parts[i] = it.String()
		}

		return "(" + strings.Join(parts, " ") + ")"
	}
}

// IsNil reports whether the token is the atom NIL.
func (t Token) IsNil() bool { return t.Kind == Atom && strings.EqualFold(t.Str, "NIL") }

// Response is one server response (one logical line including literals).
type Response struct {
	Tag    string  // "*" untagged, "+" continuation, else the tag
	Raw    string  // exact bytes without the final CRLF
	Tokens []Token // tokens after the tag (not for status responses' text part)
	// Status responses (OK/NO/BAD/BYE/PREAUTH), tagged or untagged:
	Status string // upper-cased status word or ""
	Code   string // response code without brackets, e.g. "APPENDUID 12 5"
	Text   string // human readable text after the code
}

// Num returns the leading number of an untagged data response ("* 5 EXISTS") and its keyword, upper-cased.
func (r *Response) Num() (uint32, string, bool) {
	if r.Tag != "*" || len(r.Tokens) < 2 || r.Tokens[0].Kind != Atom || r.Tokens[1].Kind != Atom {
		return 0, "", false
	}

	n, err := strconv.ParseUint(r.Tokens[0].Str, 10, 32)
	if err != nil {
		return 0, "", false
	}

	return uint32(n), strings.ToUpper(r.Tokens[1].Str), true
}

// Keyword returns the first atom after the tag, upper-cased (e.g. SEARCH, LIST, FLAGS, STATUS, CAPABILITY).
func (r *Response) Keyword() string {
	if len(r.Tokens) == 0 || r.Tokens[0].Kind != Atom {
		return ""
	}

	return strings.ToUpper(r.Tokens[0].Str)
}

// Result is the outcome of one command.
type Result struct {
	Cmd      string
	Tag      string
	Status   string // OK / NO / BAD, or "" if the connection ended before the tagged response
	Code     string
	Text     string
	Untagged []*Response
	Bye      bool  // an untagged BYE was received
	Err      error // transport error (EOF, timeout)
}

func (r *Result) OK() bool { return r.Status == "OK" }

func (r *Result) String() string {
	return fmt.Sprintf("%s -> %s [%s] %s (%d untagged) err=%v", r.Cmd, r.Status, r.Code, r.Text, len(r.Untagged), r.Err)
}

// ErrTimeout is returned when the server does not answer within the client's watchdog.
var ErrTimeout = errors.New("imapc: watchdog timeout")

// Client is one connection.
type Client struct {
	Name    string
	conn    net.Conn
	r       *bufio.Reader
	raw     bytes.Buffer // bytes of the response being read
	tagN    int
	Timeout time.Duration

	histMu sync.Mutex
	hist   *History

	Greeting *Response
	// Async collects untagged responses that arrived outside a command (after Poll).
	closed bool
}

// History is a shared, ordered log of the traffic of several clients and of harness events.
type History struct {
	mu    sync.Mutex
	lines []string
	limit int
}

func NewHistory() *History { return &History{limit: 20000} }

func (h *History) Add(format string, a ...any) {
	if h == nil {
		return
	}

	h.mu.Lock()
	defer h.mu.Unlock()

	if len(h.lines) < h.limit {
		s := fmt.Sprintf(format, a...)
		if len(s) > 600 {
			s = s[:300] + fmt.Sprintf(" …[%d bytes]… ", len(s)-500) + s[len(s)-200:]
		}

		h.lines = append(h.lines, s)
	}
}

func (h *History) Lines() []string {
	if h == nil {
		return nil
	}

	h.mu.Lock()
	defer h.mu.Unlock()

	return append([]string(nil), h.lines...)
}

func (h *History) String() string { return strings.Join(h.Lines(), "\n") }

// Dial connects and reads the greeting.
func Dial(addr, name string, hist *History, timeout time.Duration) (*Client, error) {
	conn, err := net.DialTimeout("tcp", addr, 10*time.Second)
	if err != nil {
		return nil, err
	}

	c := &Client{Name: name, conn: conn, r: bufio.NewReaderSize(conn, 1<<16), Timeout: timeout, hist: hist}

	g, err := c.ReadResponse()
	if err != nil {
		conn.Close()
		return nil, fmt.Errorf("greeting: %w", err)
	}

	c.Greeting = g

	return c, nil
}

func (c *Client) Close() {
	if !c.closed {
		c.closed = true
		c.hist.Add("%s: <close>", c.Name)

		// Reset instead of a graceful close: thousands of short-lived connections would otherwise pile up in TIME_WAIT
		// and exhaust the ephemeral ports of the sandbox.
		if tcp, ok := c.conn.(*net.TCPConn); ok {
			_ = tcp.SetLinger(0)
		}

		_ = c.conn.Close()
	}
}

func (c *Client) Conn() net.Conn { return c.conn }

func (c *Client) deadline() {
	if c.Timeout > 0 {
		_ = c.conn.SetReadDeadline(time.Now().Add(c.Timeout))
	}
}

func (c *Client) readByte() (byte, error) {
	b, err := c.r.ReadByte()
	if err != nil {
		return 0, err
	}

	c.raw.WriteByte(b)

	return b, nil
}

func (c *Client) peekByte() (byte, error) {
	b, err := c.r.Peek(1)
	if err != nil {
		return 0, err
	}

	return b[0], nil
}

func mapErr(err error) error {
	var ne net.Error
	if errors.As(err, &ne) && ne.Timeout() {
		return ErrTimeout
	}

	return err
}

// ReadResponse reads one complete response.
func (c *Client) ReadResponse() (*Response, error) {
	c.deadline()
	c.raw.Reset()

	resp, err := c.readResponse()
	if err != nil {
		c.hist.Add("%s: S! %v (partial %q)", c.Name, err, c.raw.String())
		return nil, mapErr(err)
	}

	c.hist.Add("%s: S: %s", c.Name, resp.Raw)

	return resp, nil
}

// TryReadResponse reads a response if one arrives within d; (nil, nil) if nothing arrived.
func (c *Client) TryReadResponse(d time.Duration) (*Response, error) {
	_ = c.conn.SetReadDeadline(time.Now().Add(d))

	if _, err := c.r.Peek(1); err != nil {
		var ne net.Error
		if errors.As(err, &ne) && ne.Timeout() {
			return nil, nil
		}

		return nil, err
	}

	return c.ReadResponse()
}

func (c *Client) readResponse() (*Response, error) {
	resp := &Response{}

	// tag
	var tag []byte

	for {
		b, err := c.readByte()
		if err != nil {
			return nil, err
		}

		if b == ' ' {
			break
		}

		if b == '\r' {
			// "+\r\n" (continuation without text) or garbage
			if nb, err := c.readByte(); err != nil {
				return nil, err
			} else if nb != '\n' {
				return nil, fmt.Errorf("framing: CR not followed by LF in tag %q", tag)
			}

			resp.Tag = string(tag)
			resp.Raw = strings.TrimSuffix(c.raw.String(), "\r\n")

			return resp, nil
		}

		tag = append(tag, b)

		if len(tag) > 256 {
			return nil, fmt.Errorf("framing: overlong tag %q", tag)
		}
	}

	resp.Tag = string(tag)

	if resp.Tag == "+" {
		line, err := c.readLine()
		if err != nil {
			return nil, err
		}

		resp.Text = line
		resp.Raw = strings.TrimSuffix(c.raw.String(), "\r\n")

		return resp, nil
	}

	// first word: status or data
	word, err := c.peekWord()
	if err != nil {
		return nil, err
	}

	switch strings.ToUpper(word) {
	case "OK", "NO", "BAD", "BYE", "PREAUTH":
		line, err := c.readLine()
		if err != nil {
			return nil, err
		}

		resp.Status = strings.ToUpper(word)
		rest := strings.TrimPrefix(line[len(word):], " ")

		if strings.HasPrefix(rest, "[") {
			if end := strings.Index(rest, "]"); end > 0 {
				resp.Code = rest[1:end]
				rest = strings.TrimPrefix(rest[end+1:], " ")
			}
		}

		resp.Text = rest
		resp.Raw = strings.TrimSuffix(c.raw.String(), "\r\n")

		return resp, nil
	}

	toks, err := c.readTokens(0)
	if err != nil {
		return nil, err
	}

	resp.Tokens = toks
	resp.Raw = strings.TrimSuffix(c.raw.String(), "\r\n")

	return resp, nil
}

func (c *Client) peekWord() (string, error) {
	for n := 1; n <= 16; n++ {
		b, err := c.r.Peek(n)
		if err != nil {
			return "", err
		}

		if ch := b[n-1]; ch == ' ' || ch == '\r' {
			return string(b[:n-1]), nil
		}
	}

	return "", nil
}

func (c *Client) readLine() (string, error) {
	var line []byte

	for {
		b, err := c.readByte()
		if err != nil {
			return "", err
		}

		if b == '\n' && len(line) > 0 && line[len(line)-1] == '\r' {
			return string(line[:len(line)-1]), nil
		}

		line = append(line, b)

		if len(line) > 1<<20 {
			return "", fmt.Errorf("framing: overlong line")
		}
	}
}

// readTokens reads tokens until CRLF (depth 0) or ')' (depth > 0).
func (c *Client) readTokens(depth int) ([]Token, error) {
	var toks []Token

	for {
		b, err := c.peekByte()
		if err != nil {
			return nil, err
		}

		switch {
		case b == ' ':
			_, _ = c.readByte()

		case b == '\r':
			_, _ = c.readByte()

			nb, err := c.readByte()
			if err != nil {
				return nil, err
			}

			if nb != '\n' {
				return nil, fmt.Errorf("framing: CR not followed by LF")
			}

			if depth != 0 {
				return nil, fmt.Errorf("framing: line ended inside a list (depth %d)", depth)
			}

			return toks, nil

		case b == '\n':
			return nil, fmt.Errorf("framing: bare LF")

		case b == '(':
			_, _ = c.readByte()

			items, err := c.readTokens(depth + 1)
			if err != nil {
				return nil, err
			}

			toks = append(toks, Token{Kind: List, Items: items})

		case b == ')':
			_, _ = c.readByte()

			if depth == 0 {
				return nil, fmt.Errorf("framing: unbalanced ')'")
			}

			return toks, nil

		case b == '"':
			_, _ = c.readByte()

			var s []byte

			for {
				ch, err := c.readByte()
				if err != nil {
					return nil, err
				}

				if ch == '\\' {
					nx, err := c.readByte()
					if err != nil {
						return nil, err
					}

					s = append(s, nx)

					continue
				}

				if ch == '"' {
					break
				}

				if ch == '\r' || ch == '\n' {
					return nil, fmt.Errorf("framing: line break inside quoted string")
				}

				s = append(s, ch)
			}

			toks = append(toks, Token{Kind: Quoted, Str: string(s)})

		case b == '{':
			_, _ = c.readByte()

			var num []byte

			for {
				ch, err := c.readByte()
				if err != nil {
					return nil, err
				}

				if ch == '}' {
					break
				}

				if ch < '0' || ch > '9' || len(num) > 12 {
					return nil, fmt.Errorf("framing: bad literal header")
				}

				num = append(num, ch)
			}

			if cr, err := c.readByte(); err != nil {
				return nil, err
			} else if cr != '\r' {
				return nil, fmt.Errorf("framing: literal header not followed by CRLF")
			}

			if lf, err := c.readByte(); err != nil {
				return nil, err
			} else if lf != '\n' {
				return nil, fmt.Errorf("framing: literal header not followed by CRLF")
			}

			n, _ := strconv.Atoi(string(num))
			buf := make([]byte, n)

			if _, err := io.ReadFull(c.r, buf); err != nil {
				return nil, fmt.Errorf("framing: literal of %d bytes cut short: %w", n, err)
			}

			// keep Raw readable: do not copy huge literals verbatim
			if n <= 200 {
				c.raw.Write(buf)
			} else {
				fmt.Fprintf(&c.raw, "<%d bytes>", n)
			}

			toks = append(toks, Token{Kind: Literal, Str: string(buf)})

		default:
			// atom; '[' … ']' sections may contain spaces and parentheses (BODY[HEADER.FIELDS (TO CC)]<0>)
			var s []byte

			brackets := 0

			for {
				ch, err := c.peekByte()
				if err != nil {
					return nil, err
				}

				if brackets == 0 && (ch == ' ' || ch == '(' || ch == ')' || ch == '\r' || ch == '\n' || ch == '"' || ch == '{') {
					break
				}

				if ch == '\r' || ch == '\n' {
					return nil, fmt.Errorf("framing: line break inside [section]")
				}

				if ch == '[' {
					brackets++
				} else if ch == ']' && brackets > 0 {
					brackets--
				}

				_, _ = c.readByte()

				s = append(s, ch)
			}

			toks = append(toks, Token{Kind: Atom, Str: string(s)})
		}
	}
}

func (c *Client) nextTag() string {
	c.tagN++
	return fmt.Sprintf("%s%d", strings.ToUpper(c.Name[:1]), c.tagN)
}

// Send writes raw bytes.
func (c *Client) Send(b []byte) error {
	_ = c.conn.SetWriteDeadline(time.Now().Add(60 * time.Second))
	_, err := c.conn.Write(b)

	return err
}

// Part is a piece of a command: text, or a literal (sent as {n}CRLF, wait for "+", bytes).
type Part struct {
	Text    string
	Literal []byte
	IsLit   bool
}

func T(s string) Part      { return Part{Text: s} }
func L(b []byte) Part      { return Part{Literal: b, IsLit: true} }
func Ls(s string) Part     { return Part{Literal: []byte(s), IsLit: true} }
func join(p []Part) string { // for the history
	var sb strings.Builder
	for _, x := range p {
		if x.IsLit {
			fmt.Fprintf(&sb, "{%d}%.80q", len(x.Literal), x.Literal)
		} else {
			sb.WriteString(x.Text)
		}
	}

	return sb.String()
}

// Cmd sends "<tag> <text>CRLF" and collects responses until the tagged one.
func (c *Client) Cmd(text string) *Result { return c.CmdParts(T(text)) }

// Cmdf is Cmd with formatting.
func (c *Client) Cmdf(format string, a ...any) *Result { return c.Cmd(fmt.Sprintf(format, a...)) }

// CmdParts sends a command consisting of text and synchronising literals.
func (c *Client) CmdParts(parts ...Part) *Result {
	tag := c.nextTag()
	res := &Result{Cmd: join(parts), Tag: tag}
	c.hist.Add("%s: C: %s %s", c.Name, tag, res.Cmd)

	var buf bytes.Buffer

	buf.WriteString(tag + " ")

	for _, p := range parts {
		if !p.IsLit {
			buf.WriteString(p.Text)
			continue
		}

		fmt.Fprintf(&buf, "{%d}\r\n", len(p.Literal))

		if err := c.Send(buf.Bytes()); err != nil {
			res.Err = err
			return res
		}

		buf.Reset()

		// wait for continuation (untagged responses may arrive first; a tagged response ends the command)
		for {
			r, err := c.ReadResponse()
			if err != nil {
				res.Err = err
				return res
			}

			if r.Tag == "+" {
				break
			}

			if r.Tag == tag {
				res.Status, res.Code, res.Text = r.Status, r.Code, r.Text
				return res
			}

			c.collect(res, r)
		}

		buf.Write(p.Literal)
	}

	buf.WriteString("\r\n")

	if err := c.Send(buf.Bytes()); err != nil {
		res.Err = err
		return res
	}

	c.finish(res)

	return res
}

func (c *Client) collect(res *Result, r *Response) {
	if r.Tag == "*" && r.Status == "BYE" {
		res.Bye = true
	}

	res.Untagged = append(res.Untagged, r)
}

func (c *Client) finish(res *Result) {
	for {
		r, err := c.ReadResponse()
		if err != nil {
			res.Err = err
			return
		}

		if r.Tag == res.Tag {
			res.Status, res.Code, res.Text = r.Status, r.Code, r.Text
			return
		}

		c.collect(res, r)
	}
}

// IdleStart sends IDLE and waits for the continuation; untagged responses sent before it are returned.
func (c *Client) IdleStart() (*Result, bool) {
	tag := c.nextTag()
	res := &Result{Cmd: "IDLE", Tag: tag}
	c.hist.Add("%s: C: %s IDLE", c.Name, tag)

	if err := c.Send([]byte(tag + " IDLE\r\n")); err != nil {
		res.Err = err
		return res, false
	}

	for {
		r, err := c.ReadResponse()
		if err != nil {
			res.Err = err
			return res, false
		}

		if r.Tag == "+" {
			return res, true
		}

		if r.Tag == tag {
			res.Status, res.Code, res.Text = r.Status, r.Code, r.Text
			return res, false
		}

		c.collect(res, r)
	}
}

// IdleDone sends DONE and collects responses until the tagged result of the IDLE.
func (c *Client) IdleDone(res *Result) {
	c.hist.Add("%s: C: DONE", c.Name)

	if err := c.Send([]byte("DONE\r\n")); err != nil {
		res.Err = err
		return
	}

	c.finish(res)
}
