// Package ns is the reference model M-ns of property C14 (DESIGN.md §2): the mailbox namespace of one user, the
// subscription state, and the LIST/LSUB matcher. It is written from RFC 3501 6.3.3-6.3.9 and from what gluon's own
// tests document (tests/create_test.go, delete_test.go, rename_test.go, list_test.go, lsub_test.go,
// subscribe_test.go, unsubscribe_test.go, case_test.go, recovery_mailbox_test.go, updates_test.go). It shares no code
// with gluon; in particular the wildcard matcher is a direct recursion over the pattern (gluon translates patterns to
// regular expressions).
//
// All names are UTF-8 (what a client means before it encodes a name in modified UTF-7).
package ns

import (
	"sort"
	"strings"
)

// Recovery is the name of gluon's recovery mailbox (tests/recovery_mailbox_test.go).
const Recovery = "Recovered Messages"

// Inbox is the canonical spelling of the one case-insensitive name.
const Inbox = "INBOX"

// Box is one existing mailbox.
type Box struct {
	ID         string // remote (connector) id; "" = created by the server, id not learned yet
	Subscribed bool
	Hidden     bool // not reported by LIST/LSUB (the recovery mailbox while it is empty)
}

// Model is the namespace of one user.
type Model struct {
	Delim string // hierarchy delimiter; "" = flat namespace
	Boxes map[string]*Box
	// DeletedSubs: names that a client deleted while they were subscribed. RFC 3501 6.3.6: the server MUST NOT
	// unilaterally remove a name from the subscription list even if the mailbox no longer exists
	// (tests/lsub_test.go TestLsubSubscribedNotExisting, unsubscribe_test.go TestUnsubscribeAfterMailboxDeleted).
	DeletedSubs map[string]bool
}

func New(delim string) *Model {
	return &Model{Delim: delim, Boxes: map[string]*Box{}, DeletedSubs: map[string]bool{}}
}

// Outcome of a client command.
type Outcome struct {
	OK  bool
	Why string // rule that decided (for failure messages and labels)
	// for the non-triviality rule of C14:
	MovedInferiors int  // RENAME: number of inferiors carried along
	LeftNoselect   bool // DELETE: the name stays visible as a \Noselect parent
	Created        int  // CREATE/RENAME: number of mailboxes that came into existence (incl. missing superiors)
}

func no(why string) Outcome { return Outcome{Why: why} }

// Split cuts a name into its hierarchy levels.
func (m *Model) Split(name string) []string {
	if m.Delim == "" {
		return []string{name}
	}

	return strings.Split(name, m.Delim)
}

// Canon folds the first hierarchy level to INBOX if it spells "inbox" in any case: RFC 3501 5.1 (INBOX is
// case-insensitive) for the bare name; gluon extends it to the first level of a longer name
// (tests/case_test.go TestMailboxCase: SELECT iNbOx/other; list_test.go TestListInbox "even when it's just part of a
// path"). Other levels are case-sensitive.
func (m *Model) Canon(name string) string {
	parts := m.Split(name)
	if strings.EqualFold(parts[0], Inbox) {
		parts[0] = Inbox
	}

	return strings.Join(parts, m.Delim)
}

// Superiors returns the superior names of a name, outermost first (none in a flat namespace).
func (m *Model) Superiors(name string) []string {
	if m.Delim == "" {
		return nil
	}

	var res []string

	for i := 0; i < len(name); i++ {
		if name[i] == m.Delim[0] {
			res = append(res, name[:i])
		}
	}

	return res
}

// Inferiors returns the existing mailboxes below the name, sorted.
func (m *Model) Inferiors(name string) []string {
	if m.Delim == "" {
		return nil
	}

	var res []string

	for n := range m.Boxes {
		if strings.HasPrefix(n, name+m.Delim) {
			res = append(res, n)
		}
	}

	sort.Strings(res)

	return res
}

// Names returns the existing mailbox names, sorted.
func (m *Model) Names() []string {
	res := make([]string, 0, len(m.Boxes))
	for n := range m.Boxes {
		res = append(res, n)
	}

	sort.Strings(res)

	return res
}

// DeletedSubNames returns the deleted-but-subscribed names, sorted.
func (m *Model) DeletedSubNames() []string {
	res := make([]string, 0, len(m.DeletedSubs))
	for n := range m.DeletedSubs {
		res = append(res, n)
	}

	sort.Strings(res)

	return res
}

// UnderRecovery tells whether a name is the recovery mailbox or lies in the part of the namespace that CREATE refuses
// because of it (tests/recovery_mailbox_test.go TestRecoveryMBoxCanNotBeCreated: the name, its lower-case spelling
// and "<name>/sub"; state.Create refuses every name that starts with it, case-insensitively).
func UnderRecovery(name string) bool {
	return strings.HasPrefix(strings.ToLower(name), strings.ToLower(Recovery))
}

// BelowRecovery tells whether the name is an inferior of the recovery mailbox.
func (m *Model) BelowRecovery(name string) bool {
	return m.Delim != "" && strings.HasPrefix(name, Recovery+m.Delim)
}

func (m *Model) isRecovery(name string) bool { return strings.EqualFold(name, Recovery) }

// add brings a name into existence (subscribed, RFC-silent; gluon: tests/subscribe_test.go "Mailboxes are subscribed
// by default"). A name that comes into existence again is a mailbox with its own subscription flag: it no longer is a
// "deleted but subscribed" name.
func (m *Model) add(name, id string) {
	m.Boxes[name] = &Box{ID: id, Subscribed: true}
	delete(m.DeletedSubs, name)
}

// Create is CREATE (RFC 3501 6.3.3; tests/create_test.go).
func (m *Model) Create(raw string) Outcome {
	name := m.Canon(raw)

	if name == Inbox {
		return no("CREATE INBOX is refused") // TestCreateCannotCreateInbox
	}

	if UnderRecovery(name) {
		return no("recovery mailbox is protected") // TestRecoveryMBoxCanNotBeCreated
	}

	if m.Delim != "" {
		if strings.HasPrefix(name, m.Delim) {
			return no("begins with hierarchy separator") // TestCreateBeginsWithSeparator
		}

		if strings.Contains(name, m.Delim+m.Delim) {
			return no("adjacent hierarchy separators") // TestCreateAdjacentSeparator
		}

		// RFC 3501 6.3.3: a trailing delimiter declares the intent to create inferiors; the name itself is created
		// without it (TestCreateEndingInSeparator).
		name = strings.TrimSuffix(name, m.Delim)
	}

	if _, ok := m.Boxes[name]; ok {
		return no("mailbox exists") // TestCreateCannotCreateExistingMailbox
	}

	out := Outcome{OK: true}

	// RFC 3501 6.3.3: "the server SHOULD create any superior hierarchical names that are needed"
	// (TestCreatePreviousLevelHierarchyIfNonExisting).
	for _, s := range append(m.Superiors(name), name) {
		if _, ok := m.Boxes[s]; !ok {
			m.add(s, "")
			out.Created++
		}
	}

	return out
}

// Delete is DELETE (RFC 3501 6.3.4; tests/delete_test.go).
func (m *Model) Delete(raw string) Outcome {
	name := m.Canon(raw)

	if name == Inbox {
		return no("DELETE INBOX is refused") // TestDeleteCannotDeleteInbox
	}

	if m.isRecovery(name) {
		return no("recovery mailbox is protected")
	}

	b, ok := m.Boxes[name]
	if !ok {
		// missing, or visible only as \Noselect parent (TestDelete: "deleting mailboxes with \Noselect ... is an error")
		return no("no such mailbox")
	}

	delete(m.Boxes, name)

	if b.Subscribed {
		m.DeletedSubs[name] = true
	}

	// inferiors stay (TestDeleteMailboxHasChildren)
	return Outcome{OK: true, LeftNoselect: len(m.Inferiors(name)) > 0}
}

// Rename is RENAME (RFC 3501 6.3.5; tests/rename_test.go). The target is taken as it is (gluon documents name-shape
// checks for CREATE only; callers pass well-formed targets).
func (m *Model) Rename(rawOld, rawNew string) Outcome {
	oldName, newName := m.Canon(rawOld), m.Canon(rawNew)

	if m.isRecovery(oldName) || m.isRecovery(newName) {
		return no("recovery mailbox is protected") // TestRecoveryMBoxCanNotBeRenamed
	}

	b, ok := m.Boxes[oldName]
	if !ok {
		return no("no such mailbox")
	}

	if _, ok := m.Boxes[newName]; ok {
		return no("target exists") // RFC 3501 6.3.5; TestRenameBadHierarchy foo -> foo.bar
	}

	for _, s := range m.Superiors(newName) {
		if s == oldName {
			return no("target is an inferior of the source") // TestRenameBadHierarchy foo -> foo.foo
		}
	}

	// The recovery mailbox advertises \Noinferiors and CREATE refuses every name below it
	// (TestRecoveryMBoxCanNotBeCreated "<name>/sub"): no inferior of it may come into existence through RENAME either.
	if m.BelowRecovery(newName) {
		return no("recovery mailbox is protected (no inferiors)")
	}

	// names are unique: every inferior's new name must be free as well. The whole subtree moves at once: a name that
	// the subtree itself vacates is free (RENAME a/b/c -> a/b with inferior a/b/c/d -> a/b/c).
	infs := m.Inferiors(oldName)
	if oldName != Inbox {
		moving := map[string]bool{oldName: true}
		for _, inf := range infs {
			moving[inf] = true
		}

		for _, inf := range infs {
			n := newName + strings.TrimPrefix(inf, oldName)
			if _, ok := m.Boxes[n]; ok && !moving[n] {
				return no("new name of an inferior exists")
			}
		}
	}

	out := Outcome{OK: true}

	// RFC 3501 6.3.5: missing superiors of the new name are created (TestRenameHierarchy, TestRenameAddHierarchy).
	for _, s := range m.Superiors(newName) {
		if _, ok := m.Boxes[s]; !ok {
			m.add(s, "")
			out.Created++
		}
	}

	if oldName == Inbox {
		// RFC 3501 6.3.5: messages move to a new mailbox, INBOX stays, its inferiors are unaffected (TestRenameInbox).
		m.add(newName, "")
		out.Created++

		return out
	}

	// the mailbox keeps its identity and subscription; inferiors are carried along (TestRenameHierarchyRoot)
	delete(m.Boxes, oldName)
	m.Boxes[newName] = b
	delete(m.DeletedSubs, newName)

	// the subtree moves at once: take all inferiors out first, then put them under their new names
	moved := make([]*Box, len(infs))

	for i, inf := range infs {
		moved[i] = m.Boxes[inf]
		delete(m.Boxes, inf)
	}

	for i, inf := range infs {
		n := newName + strings.TrimPrefix(inf, oldName)
		m.Boxes[n] = moved[i]
		delete(m.DeletedSubs, n)
		out.MovedInferiors++
	}

	return out
}

// Subscribe is SUBSCRIBE (tests/subscribe_test.go: missing -> NO, already subscribed -> NO).
func (m *Model) Subscribe(raw string) Outcome {
	b, ok := m.Boxes[m.Canon(raw)]
	if !ok {
		return no("no such mailbox") // also for a deleted-but-subscribed name: TestUnsubscribeAfterMailboxDeleted
	}

	if b.Subscribed {
		return no("already subscribed")
	}

	b.Subscribed = true

	return Outcome{OK: true}
}

// Unsubscribe is UNSUBSCRIBE (tests/unsubscribe_test.go).
func (m *Model) Unsubscribe(raw string) Outcome {
	name := m.Canon(raw)

	b, ok := m.Boxes[name]
	if !ok {
		if m.DeletedSubs[name] {
			delete(m.DeletedSubs, name) // TestUnsubscribeAfterMailboxDeleted
			return Outcome{OK: true}
		}

		return no("no such mailbox")
	}

	if !b.Subscribed {
		return no("not subscribed")
	}

	b.Subscribed = false

	return Outcome{OK: true}
}

// ---- connector updates (imap.MailboxCreated / MailboxUpdated / MailboxDeleted) ----

func (m *Model) byID(id string) (string, *Box) {
	for n, b := range m.Boxes {
		if b.ID == id && id != "" {
			return n, b
		}
	}

	return "", nil
}

// ByID returns the name of the mailbox with the remote id ("" if none).
func (m *Model) ByID(id string) string {
	n, _ := m.byID(id)
	return n
}

// ConnCreate applies MailboxCreated: exactly this one name comes into existence (no superiors:
// tests/list_test.go TestListPanic "no-parent"). ok=false: the update must be refused and change nothing
// (protected id; name already taken: names are unique).
func (m *Model) ConnCreate(id string, name string, recoveryID string) (ok bool) {
	if id == recoveryID {
		return false
	}

	if _, b := m.byID(id); b != nil {
		return true // known id: no-op
	}

	if _, exists := m.Boxes[name]; exists {
		return false
	}

	m.add(name, id)

	return true
}

// ConnRename applies MailboxUpdated: exactly one mailbox changes its name (inferiors are separate updates).
func (m *Model) ConnRename(id string, name string, recoveryID string) (ok bool) {
	if id == recoveryID {
		return false
	}

	cur, b := m.byID(id)
	if b == nil || cur == name {
		return true
	}

	if _, exists := m.Boxes[name]; exists {
		return false
	}

	delete(m.Boxes, cur)
	m.Boxes[name] = b
	delete(m.DeletedSubs, name)

	return true
}

// ConnDelete applies MailboxDeleted: the mailbox goes, and with it the subscription of its name
// (tests/updates_test.go TestDeleteMailboxFromConnectorAlsoRemoveSubscriptionStatus).
func (m *Model) ConnDelete(id string, recoveryID string) (ok bool) {
	if id == recoveryID {
		return false
	}

	cur, b := m.byID(id)
	if b == nil {
		return true
	}

	delete(m.Boxes, cur)
	delete(m.DeletedSubs, cur)

	return true
}

// ---- LIST / LSUB ----

// Match reports whether the name matches the pattern under the RFC 3501 6.3.8 wildcard rules: "*" matches zero or
// more characters, "%" matches zero or more characters other than the hierarchy delimiter, every other character
// matches itself (case-sensitively). Direct recursion, no regular expressions.
func Match(pattern, name, delim string) bool {
	if pattern == "" {
		return name == ""
	}

	switch pattern[0] {
	case '*':
		for i := 0; i <= len(name); i++ {
			if Match(pattern[1:], name[i:], delim) {
				return true
			}
		}

		return false

	case '%':
		for i := 0; i <= len(name); i++ {
			if Match(pattern[1:], name[i:], delim) {
				return true
			}

			// the wildcard may not swallow a delimiter
			if i < len(name) && delim != "" && name[i] == delim[0] {
				break
			}
		}

		return false

	default:
		return name != "" && name[0] == pattern[0] && Match(pattern[1:], name[1:], delim)
	}
}

// CanonPattern interprets reference and mailbox name: gluon documents plain concatenation (tests/list_test.go
// TestListRef, TestListWildcards `list "some.thing" "*"`, TestListInbox `list "inb" "ox"`), and INBOX folding of the
// first level when it is written without wildcards (TestListInbox, TestMailboxCase).
func (m *Model) CanonPattern(ref, pattern string) string {
	// RFC 3501 9: list = "LIST" SP mailbox SP list-mailbox, and mailbox = "INBOX" / astring with INBOX
	// case-insensitive: a reference that spells "inbox" is INBOX before anything is appended to it.
	if strings.EqualFold(ref, Inbox) {
		ref = Inbox
	}

	full := ref + pattern
	first := full

	if m.Delim != "" {
		if i := strings.Index(full, m.Delim); i >= 0 {
			first = full[:i]
		}
	}

	if strings.EqualFold(first, Inbox) {
		return Inbox + full[len(first):]
	}

	return full
}

// Root is the answer to LIST with an empty mailbox name (RFC 3501 6.3.8: hierarchy delimiter and root name of the
// reference; tests/list_test.go TestList A101-A103, TestListRef "Empty ref").
// defined=false: the RFC does not say what the root of a reference is in a flat namespace.
func (m *Model) Root(ref string) (root string, defined bool) {
	if m.Delim == "" {
		return "", ref == ""
	}

	i := strings.Index(ref, m.Delim)

	switch {
	case i < 0:
		return "", true
	case i == 0:
		return m.Delim, true // RFC example: LIST /usr/staff/jones "" -> "/"
	default:
		return ref[:i+1], true
	}
}

func (m *Model) visible() map[string]*Box {
	res := map[string]*Box{}

	for n, b := range m.Boxes {
		if !b.Hidden {
			res[n] = b
		}
	}

	return res
}

// List returns name -> has \Noselect for LIST ref pattern (pattern not empty). Every visible mailbox and every
// superior level of one is a name of the hierarchy; a level that is not itself a mailbox carries \Noselect
// (RFC 3501 6.3.8 / 7.2.2; tests: TestListRemoved, TestListPanic, TestDelete).
func (m *Model) List(ref, pattern string) map[string]bool {
	p := m.CanonPattern(ref, pattern)
	vis := m.visible()
	res := map[string]bool{}

	for n := range vis {
		for _, s := range append(m.Superiors(n), n) {
			if _, done := res[s]; done {
				continue
			}

			if Match(p, s, m.Delim) {
				_, isBox := vis[s]
				res[s] = !isBox
			}
		}
	}

	return res
}

// Lsub returns name -> has \Noselect for LSUB ref pattern (pattern not empty): the subscribed names that match
// (RFC 3501 6.3.9; a subscribed name that no longer exists is flagged \Noselect: TestLsubSubscribedNotExisting), and,
// if the pattern ends with "%", the matching superior levels of subscribed names, flagged \Noselect when they are not
// subscribed themselves (RFC 3501 6.3.9 "special situation"; tests/lsub_test.go TestLsub P001, TestLsubPanic).
func (m *Model) Lsub(ref, pattern string) map[string]bool {
	p := m.CanonPattern(ref, pattern)
	subs := map[string]bool{} // name -> noselect

	for n, b := range m.visible() {
		if b.Subscribed {
			subs[n] = false
		}
	}

	for n := range m.DeletedSubs {
		if _, exists := m.Boxes[n]; !exists {
			subs[n] = true
		}
	}

	res := map[string]bool{}

	for n, nosel := range subs {
		if Match(p, n, m.Delim) {
			res[n] = nosel
		}

		if !strings.HasSuffix(pattern, "%") {
			continue
		}

		for _, s := range m.Superiors(n) {
			if _, isSub := subs[s]; isSub {
				continue
			}

			if Match(p, s, m.Delim) {
				res[s] = true
			}
		}
	}

	return res
}
