package ns

import (
	"reflect"
	"testing"
)

// The reference model against the examples of RFC 3501 6.3.8/6.3.9 and the transcripts of gluon's own tests.

func TestMatch(t *testing.T) {
	for _, tc := range []struct {
		pattern, name, delim string
		want                 bool
	}{
		{"*", "", "/", true},
		{"*", "a/b/c", "/", true},
		{"%", "a", "/", true},
		{"%", "a/b", "/", false},
		{"%", "", "/", true},
		{"a/%", "a/b", "/", true},
		{"a/%", "a/", "/", true},
		{"a/%", "a", "/", false},
		{"a/%", "a/b/c", "/", false},
		{"%/%", "a/b", "/", true},
		{"%/b", "a/b", "/", true},
		{"*/b", "x/y/b", "/", true},
		{"%/b", "x/y/b", "/", false},
		{"a%", "abc", "/", true},
		{"a%c", "abc", "/", true},
		{"a%c", "ab/c", "/", false},
		{"a*c", "ab/c", "/", true},
		{"%%", "ab", "/", true},
		{"%*", "a/b", "/", true},
		{"*%", "a/b", "/", true},
		{"**", "", "/", true},
		{"a.b", "aXb", "/", false},
		{"a+b", "a+b", "/", true},
		{"a+b", "aab", "/", false},
		{"(c)", "c", "/", false},
		{"[d]", "d", "/", false},
		{"%", "a/b", "", true}, // flat namespace: nothing to stop at
		{"%", "a.b", ".", false},
		{`%`, `a\b`, `\`, false},
		{`a\%`, `a\b`, `\`, true},
		{"é%", "éa", "/", true},
		{"INBOX", "inbox", "/", false}, // folding is the caller's business (CanonPattern)
	} {
		if got := Match(tc.pattern, tc.name, tc.delim); got != tc.want {
			t.Errorf("Match(%q, %q, delim %q) = %v, want %v", tc.pattern, tc.name, tc.delim, got, tc.want)
		}
	}
}

func model(delim string, names ...string) *Model {
	m := New(delim)
	m.Boxes[Inbox] = &Box{ID: "i", Subscribed: true}

	for _, n := range names {
		if out := m.Create(n); !out.OK {
			panic(n + ": " + out.Why)
		}
	}

	return m
}

func TestListLikeGluonTests(t *testing.T) {
	// tests/list_test.go TestListWildcards
	m := model(".", "some.thing.else.entirely")
	if out := m.Delete("some"); !out.OK || !out.LeftNoselect {
		t.Fatal(out)
	}

	for _, tc := range []struct {
		ref, pat string
		want     map[string]bool
	}{
		{"", "*", map[string]bool{"INBOX": false, "some": true, "some.thing": false, "some.thing.else": false, "some.thing.else.entirely": false}},
		{"", "%", map[string]bool{"INBOX": false, "some": true}},
		{"some.thing", "*", map[string]bool{"some.thing": false, "some.thing.else": false, "some.thing.else.entirely": false}},
		{"some.thing", "%", map[string]bool{"some.thing": false}},
		{"some.thing.", "*", map[string]bool{"some.thing.else": false, "some.thing.else.entirely": false}},
		{"some.thing.", "%", map[string]bool{"some.thing.else": false}},
		{"inb", "OX", map[string]bool{"INBOX": false}},
		{"", "iNbOx", map[string]bool{"INBOX": false}},
		{"", "inbox*", map[string]bool{}},
	} {
		if got := m.List(tc.ref, tc.pat); !reflect.DeepEqual(got, tc.want) {
			t.Errorf("LIST %q %q = %v, want %v", tc.ref, tc.pat, got, tc.want)
		}
	}

	// TestListRef "Empty ref", RFC 3501 6.3.8 examples
	for ref, want := range map[string]string{"": "", "some": "", "some.": "some.", "some.thing.else": "some.", ".usr.staff": "."} {
		if got, _ := m.Root(ref); got != want {
			t.Errorf("root of %q = %q, want %q", ref, got, want)
		}
	}
}

func TestLsubLikeGluonTests(t *testing.T) {
	// tests/lsub_test.go TestLsub
	m := model(".", "foo.bar")
	m.Unsubscribe("foo")

	if got, want := m.Lsub("", "*"), map[string]bool{"INBOX": false, "foo.bar": false}; !reflect.DeepEqual(got, want) {
		t.Errorf("LSUB * = %v", got)
	}

	if got, want := m.Lsub("", "%"), map[string]bool{"INBOX": false, "foo": true}; !reflect.DeepEqual(got, want) {
		t.Errorf("LSUB %% = %v", got)
	}

	// TestLsubSubscribedNotExisting
	m = model(".", "foo")
	m.Delete("foo")

	if got, want := m.Lsub("", "foo"), map[string]bool{"foo": true}; !reflect.DeepEqual(got, want) {
		t.Errorf("LSUB foo = %v", got)
	}

	if out := m.Subscribe("foo"); out.OK {
		t.Error("SUBSCRIBE of a deleted name")
	}

	if out := m.Unsubscribe("foo"); !out.OK || len(m.Lsub("", "*")) != 1 {
		t.Error("UNSUBSCRIBE of a deleted but subscribed name")
	}
}

func TestRename(t *testing.T) {
	// tests/rename_test.go TestRenameBadHierarchy, TestRenameInbox
	m := model(".", "foo.bar", "INBOX.x.y")

	for _, to := range []string{"foo.foo", "foo.foo.foo", "foo.bar", "Recovered Messages", "Recovered Messages.sub"} {
		if out := m.Rename("foo", to); out.OK {
			t.Errorf("RENAME foo %s accepted", to)
		}
	}

	if out := m.Rename("foo", "bar.foo"); !out.OK || out.MovedInferiors != 1 {
		t.Errorf("RENAME foo bar.foo: %+v", out)
	}

	if out := m.Rename("inbox", "old"); !out.OK {
		t.Errorf("RENAME inbox old: %+v", out)
	}

	want := []string{"INBOX", "INBOX.x", "INBOX.x.y", "bar", "bar.foo", "bar.foo.bar", "old"}
	if got := m.Names(); !reflect.DeepEqual(got, want) {
		t.Errorf("names %v, want %v", got, want)
	}

	// a subtree moves up onto the name of its deleted superior
	m = model("/", "a/b/b/c", "a/b/c")
	m.Delete("a")

	if out := m.Rename("a/b", "a"); !out.OK {
		t.Fatalf("%+v", out)
	}

	want = []string{"INBOX", "a", "a/b", "a/b/c", "a/c"}
	if got := m.Names(); !reflect.DeepEqual(got, want) {
		t.Errorf("names %v, want %v", got, want)
	}
}
