package bed

import (
	"errors"
	"time"

	"verif/internal/imapc"
)

// Attach starts a server on an existing root directory (as written by an earlier bed: <dir>/data, <dir>/db) and loads
// the given users (ID, Name, Pass and Conn must be set) instead of adding new ones. It is what an embedder does after
// a restart of its process; C07 uses it on restored copies of a stopped bed's directory and inside its crash child.
// Destroy does not remove the directory.
func Attach(opts Options, dir string, users ...*User) (*Bed, error) {
	if dir == "" {
		return nil, errors.New("bed.Attach: no directory")
	}

	if opts.Delimiter == "" && !optsFlat(opts) {
		opts.Delimiter = "/"
	}

	if opts.ClientTimeout == 0 {
		opts.ClientTimeout = 60 * time.Second
	}

	opts.Dir = dir
	b := &Bed{Opts: opts, Hist: imapc.NewHistory(), Panics: &PanicRec{}, dir: dir}

	for _, u := range users {
		if u.ID == "" || u.Conn == nil {
			return nil, errors.New("bed.Attach: user without ID or connector")
		}

		b.Users = append(b.Users, u)
	}

	if err := b.boot(false); err != nil {
		_ = b.Stop()
		return nil, err
	}

	return b, nil
}
