// Package bed starts, stops and restarts a real gluon.Server (built from /repo with -tags verif) on loopback TCP
// for the full-stack checks, and wraps client connections into Sessions that keep a Mirror (DESIGN.md §1.4).
package bed

import (
	"context"
	"errors"
	"fmt"
	"io"
	"net"
	"os"
	"path/filepath"
	"runtime/debug"
	"sort"
	"strconv"
	"strings"
	"sync"
	"time"

	"github.com/ProtonMail/gluon"
	"github.com/ProtonMail/gluon/db"
	"github.com/ProtonMail/gluon/imap"
	"github.com/ProtonMail/gluon/limits"
	"github.com/ProtonMail/gluon/store"
	"github.com/sirupsen/logrus"

	"verif/internal/imapc"
	"verif/internal/vconn"
)

func init() {
	logrus.SetOutput(io.Discard)
	logrus.SetLevel(logrus.PanicLevel)
}

type UserSpec struct {
	Name, Pass string

	// ID: the user ID the application chooses (Server.LoadUser); "" lets the server make one up (Server.AddUser).
	ID string
}

type Options struct {
	Delimiter          string
	IdleBulk           time.Duration
	DisableParallelism bool
	Limits             *limits.IMAP
	LoginJail          time.Duration
	UIDGen             func() imap.UIDValidityGenerator // called on every (re)start; nil = gluon's default
	StoreBuilder       store.Builder
	DBClient           db.ClientInterface
	Dir                string // root directory; "" = fresh temp dir (removed by Destroy)
	ClientTimeout      time.Duration
	Echo               vconn.Echo
}

type User struct {
	Name, Pass string
	ID         string
	Conn       *vconn.Conn
	Inbox      *vconn.RMailbox
}

// PanicRec records panics of gluon goroutines (gluon's default handler does not recover: a panic kills the process).
type PanicRec struct {
	mu     sync.Mutex
	Panics []string
}

func (p *PanicRec) HandlePanic(r interface{}) {
	if r == nil {
		return
	}

	p.mu.Lock()
	defer p.mu.Unlock()

	p.Panics = append(p.Panics, fmt.Sprintf("%v\n%s", r, debug.Stack()))
}

func (p *PanicRec) Get() []string {
	p.mu.Lock()
	defer p.mu.Unlock()

	return append([]string(nil), p.Panics...)
}

type Bed struct {
	Opts   Options
	Server *gluon.Server
	Addr   string
	Users  []*User
	Hist   *imapc.History
	Panics *PanicRec

	// KeepContext: Stop does not cancel the context given to Serve (see Stop).
	KeepContext bool

	ln      net.Listener
	dir     string
	ownDir  bool
	cancel  context.CancelFunc
	running bool
	nSess   int
	errWG   sync.WaitGroup
}

const Passphrase = "verif-passphrase"

// Start builds a server with one vconn connector per user (each with an INBOX created through a connector update).
func Start(opts Options, users ...UserSpec) (*Bed, error) {
	if opts.Delimiter == "" && !optsFlat(opts) {
		opts.Delimiter = "/"
	}

	if opts.ClientTimeout == 0 {
		opts.ClientTimeout = 60 * time.Second
	}

	b := &Bed{Opts: opts, Hist: imapc.NewHistory(), Panics: &PanicRec{}}

	if opts.Dir == "" {
		dir, err := os.MkdirTemp("", "bed-")
		if err != nil {
			return nil, err
		}

		b.dir, b.ownDir = dir, true
	} else {
		b.dir = opts.Dir
	}

	for _, u := range users {
		conn := vconn.New([]string{u.Name}, u.Pass)
		conn.Echo = opts.Echo
		b.Users = append(b.Users, &User{Name: u.Name, Pass: u.Pass, ID: u.ID, Conn: conn})
	}

	if err := b.boot(true); err != nil {
		b.Destroy()
		return nil, err
	}

	return b, nil
}

// FlatDelimiter is the Options.Delimiter value that requests an empty (flat namespace) delimiter.
const FlatDelimiter = "\x00flat"

func optsFlat(o Options) bool { return o.Delimiter == FlatDelimiter }

func (b *Bed) Delim() string {
	if optsFlat(b.Opts) {
		return ""
	}

	return b.Opts.Delimiter
}

func (b *Bed) boot(first bool) error {
	o := b.Opts

	opt := []gluon.Option{
		gluon.WithDataDir(filepath.Join(b.dir, "data")),
		gluon.WithDatabaseDir(filepath.Join(b.dir, "db")),
		gluon.WithDelimiter(b.Delim()),
		gluon.WithIdleBulkTime(o.IdleBulk),
		gluon.WithPanicHandler(b.Panics),
		gluon.WithLoginJailTime(o.LoginJail),
	}

	if o.DisableParallelism {
		opt = append(opt, gluon.WithDisableParallelism())
	}

	if o.Limits != nil {
		opt = append(opt, gluon.WithIMAPLimits(*o.Limits))
	}

	if o.UIDGen != nil {
		opt = append(opt, gluon.WithUIDValidityGenerator(o.UIDGen()))
	}

	if o.StoreBuilder != nil {
		opt = append(opt, gluon.WithStoreBuilder(o.StoreBuilder))
	}

	if o.DBClient != nil {
		opt = append(opt, gluon.WithDBClient(o.DBClient))
	}

	srv, err := gluon.New(opt...)
	if err != nil {
		return err
	}

	b.Server = srv
	ctx, cancel := context.WithCancel(context.Background())
	b.cancel = cancel

	for i, u := range b.Users {
		if first && u.ID != "" {
			if _, err := srv.LoadUser(ctx, u.Conn, u.ID, []byte(Passphrase)); err != nil {
				return fmt.Errorf("LoadUser(%q): %w", u.ID, err)
			}
		} else if first {
			id, err := srv.AddUser(ctx, u.Conn, []byte(Passphrase))
			if err != nil {
				return fmt.Errorf("AddUser: %w", err)
			}

			u.ID = id
		} else {
			u.Conn.Reopen()

			if _, err := srv.LoadUser(ctx, u.Conn, u.ID, []byte(Passphrase)); err != nil {
				return fmt.Errorf("LoadUser(%d): %w", i, err)
			}
		}
	}

	ln, err := net.Listen("tcp", "127.0.0.1:0")
	if err != nil {
		return err
	}

	b.ln, b.Addr = ln, ln.Addr().String()

	if err := srv.Serve(ctx, ln); err != nil {
		return err
	}

	b.errWG.Add(1)

	go func() {
		defer b.errWG.Done()

		for range srv.GetErrorCh() { //nolint
		}
	}()

	b.running = true

	if first {
		for _, u := range b.Users {
			mb, up := u.Conn.SeedMailbox("INBOX")
			u.Inbox = mb

			if d := u.Conn.DeliverNow(up); d[0].Err != nil {
				return fmt.Errorf("creating INBOX: %w", d[0].Err)
			}
		}
	}

	return nil
}

// Stop closes the server (clean shutdown). It returns an error if Close does not return within the watchdog.
func (b *Bed) Stop() error {
	if !b.running {
		return nil
	}

	b.running = false
	done := make(chan error, 1)

	go func() {
		ctx, cancel := context.WithTimeout(context.Background(), 120*time.Second)
		defer cancel()

		done <- b.Server.Close(ctx)
	}()

	var err error

	select {
	case err = <-done:
	case <-time.After(120 * time.Second):
		err = errors.New("bed: Server.Close did not return within 120s")
	}

	_ = b.ln.Close()

	// KeepContext: the context given to Serve stays alive, so that what Close alone leaves behind can be looked at
	// (Destroy cancels it).
	if !b.KeepContext {
		b.cancel()
	}

	return err
}

// Restart closes the server and starts a new one on the same directories with the same users.
func (b *Bed) Restart() error {
	if err := b.Stop(); err != nil {
		return err
	}

	if b.cancel != nil {
		b.cancel()
	}

	b.Hist.Add("== restart ==")

	return b.boot(false)
}

// Destroy stops the server and removes its directories (if the bed created them).
func (b *Bed) Destroy() {
	_ = b.Stop()

	if b.cancel != nil {
		b.cancel()
	}

	if b.ownDir {
		_ = os.RemoveAll(b.dir)
	}
}

func (b *Bed) Dir() string { return b.dir }

// StoreDir returns the directory holding the message files of a user.
func (b *Bed) StoreDir(u *User) string { return filepath.Join(b.dir, "data", u.ID) }

// Barrier waits until every session of the user with an open gate has processed all queued updates.
func (b *Bed) Barrier(u *User) error {
	ctx, cancel := context.WithTimeout(context.Background(), 60*time.Second)
	defer cancel()

	_, err := b.Server.VerifBarrier(ctx, u.ID)

	return err
}

// Deliver delivers up to k pending connector updates of the user (all if k<0) and returns their outcomes.
func (b *Bed) Deliver(u *User, k int) []vconn.Delivery {
	ds := u.Conn.Deliver(k)
	for _, d := range ds {
		b.Hist.Add("connector(%s): delivered %s -> err=%v acked=%v", u.Name, d.Update, d.Err, d.Acked)
	}

	return ds
}

// DeliverNow delivers the given updates immediately.
func (b *Bed) DeliverNow(u *User, us ...imap.Update) []vconn.Delivery {
	ds := u.Conn.DeliverNow(us...)
	for _, d := range ds {
		b.Hist.Add("connector(%s): delivered %s -> err=%v acked=%v", u.Name, d.Update, d.Err, d.Acked)
	}

	return ds
}

// ---- sessions ----

// Session is a client connection with its Mirror and (after LOGIN) the id of its server-side state.
type Session struct {
	*imapc.Client
	Bed      *Bed
	User     *User
	StateID  int64
	Mirror   imapc.Mirror
	Selected string // "" = no mailbox selected
	ReadOnly bool
	Dead     bool // BYE received or connection lost
	Gated    bool
	// AsyncExpunge counts EXPUNGE responses that arrived while no command was in progress (illegal).
	UIDValidity uint32
	UIDNext     uint32
}

// Dial opens a connection (not authenticated).
func (b *Bed) Dial(name string) (*Session, error) {
	if name == "" {
		b.nSess++
		name = "s" + strconv.Itoa(b.nSess)
	}

	c, err := imapc.Dial(b.Addr, name, b.Hist, b.Opts.ClientTimeout)
	if err != nil {
		return nil, err
	}

	return &Session{Client: c, Bed: b}, nil
}

// Login dials and logs in as the user; the state id is found by diffing the server's state list.
func (b *Bed) Login(name string, u *User) (*Session, error) {
	s, err := b.Dial(name)
	if err != nil {
		return nil, err
	}

	before := b.Server.VerifStateIDs(u.ID)

	if r := s.Cmdf("LOGIN %s %s", quote(u.Name), quote(u.Pass)); !r.OK() {
		s.Close()
		return nil, fmt.Errorf("login failed: %v", r)
	}

	s.User = u

	after := b.Server.VerifStateIDs(u.ID)
	seen := map[int64]bool{}

	for _, id := range before {
		seen[id] = true
	}

	var fresh []int64

	for _, id := range after {
		if !seen[id] {
			fresh = append(fresh, id)
		}
	}

	if len(fresh) != 1 {
		s.Close()
		return nil, fmt.Errorf("cannot identify state of new session: before=%v after=%v", before, after)
	}

	s.StateID = fresh[0]

	return s, nil
}

func quote(s string) string {
	return `"` + strings.NewReplacer(`\`, `\\`, `"`, `\"`).Replace(s) + `"`
}

// Quote returns s as an IMAP quoted string.
func Quote(s string) string { return quote(s) }

// Do sends a command, applies the untagged responses to the Mirror (when a mailbox is selected) and returns the result.
func (s *Session) Do(cmd string) *imapc.Result {
	r := s.Client.Cmd(cmd)
	s.absorb(r)

	return r
}

// DoParts is Do for commands with literals.
func (s *Session) DoParts(parts ...imapc.Part) *imapc.Result {
	r := s.Client.CmdParts(parts...)
	s.absorb(r)

	return r
}

func (s *Session) absorb(r *imapc.Result) {
	if r.Err != nil || r.Bye {
		s.Dead = true
	}

	if s.Selected == "" {
		return
	}

	for _, u := range r.Untagged {
		s.Mirror.Apply(u)
	}
}

// Select selects (or examines) a mailbox and resets the Mirror from the EXISTS count.
func (s *Session) Select(mbox string, examine bool) *imapc.Result {
	verb := "SELECT"
	if examine {
		verb = "EXAMINE"
	}

	r := s.Client.Cmdf("%s %s", verb, quote(mbox))
	if r.Err != nil || r.Bye {
		s.Dead = true
	}

	// RFC 3501: a failed SELECT leaves no mailbox selected.
	s.Selected, s.ReadOnly = "", false
	s.Mirror.Reset(0)

	if !r.OK() {
		return r
	}

	s.Selected, s.ReadOnly = mbox, examine

	for _, u := range r.Untagged {
		if n, kw, ok := u.Num(); ok && kw == "EXISTS" {
			s.Mirror.Reset(int(n))
		}

		if u.Status == "OK" {
			f := strings.Fields(u.Code)
			if len(f) == 2 {
				v, _ := strconv.ParseUint(f[1], 10, 32)

				switch strings.ToUpper(f[0]) {
				case "UIDVALIDITY":
					s.UIDValidity = uint32(v)
				case "UIDNEXT":
					s.UIDNext = uint32(v)
				}
			}
		}
	}

	return r
}

// Unselect leaves the selected state with CLOSE or UNSELECT.
func (s *Session) Unselect(closeCmd bool) *imapc.Result {
	verb := "UNSELECT"
	if closeCmd {
		verb = "CLOSE"
	}

	r := s.Client.Cmd(verb)
	if r.Err != nil || r.Bye {
		s.Dead = true
	}

	if r.OK() {
		s.Selected = ""
		s.Mirror.Reset(0)
	}

	return r
}

// PMsg is one message as reported by a probe.
type PMsg struct {
	Seq   uint32
	UID   uint32
	Flags []string // normalised, including \recent
	Date  string
}

// Probe issues UID FETCH 1:* (FLAGS INTERNALDATE). The probe's own lines (they carry INTERNALDATE) are returned sorted
// by sequence number and are NOT applied to the Mirror by this function; all other untagged lines (announcements that
// were flushed before or after the probe data) are applied to the Mirror only after `compare` has been called with
// the probe data, because the probe is answered from the view as it was before this command's own flush.
func (s *Session) Probe(compare func(msgs []PMsg) error) (*imapc.Result, error) {
	r := s.Client.Cmd("UID FETCH 1:* (FLAGS INTERNALDATE)")
	if r.Err != nil || r.Bye {
		s.Dead = true
	}

	if !r.OK() {
		return r, fmt.Errorf("probe failed: %v", r)
	}

	var (
		msgs  []PMsg
		other []*imapc.Response
	)

	isProbe := func(u *imapc.Response) (PMsg, bool) {
		if n, kw, ok := u.Num(); ok && kw == "FETCH" {
			if items, ok := imapc.FetchItems(u); ok {
				if d, ok := items["INTERNALDATE"]; ok {
					uid, _ := strconv.ParseUint(items["UID"].Str, 10, 32)
					return PMsg{Seq: n, UID: uint32(uid), Flags: imapc.FlagSet(items["FLAGS"]), Date: d.Str}, true
				}
			}
		}

		return PMsg{}, false
	}

	first := -1

	for i, u := range r.Untagged {
		if _, ok := isProbe(u); ok {
			first = i
			break
		}
	}

	for i, u := range r.Untagged {
		if m, ok := isProbe(u); ok {
			msgs = append(msgs, m)
			continue
		}

		// Lines in front of the probe data (late pushes of an ended IDLE) and any EXPUNGE (a FETCH never flushes
		// one itself) precede the view the probe is answered from; the rest is this command's own flush.
		if _, kw, ok := u.Num(); ok && (kw == "EXPUNGE" || i < first) {
			s.Mirror.Apply(u)
			continue
		}

		other = append(other, u)
	}

	sort.Slice(msgs, func(i, j int) bool { return msgs[i].Seq < msgs[j].Seq })

	var err error
	if compare != nil {
		err = compare(msgs)
	}

	// what the probe taught the client
	for _, m := range msgs {
		if int(m.Seq) >= 1 && int(m.Seq) <= len(s.Mirror.Msgs) {
			mm := &s.Mirror.Msgs[m.Seq-1]
			mm.UID, mm.UIDKnown, mm.Flags, mm.FlagsKnown = m.UID, true, m.Flags, true
		}
	}

	for _, u := range other {
		s.Mirror.Apply(u)
	}

	return r, err
}

// CompareWithMirror is the C01 comparison: the probe must equal the Mirror in count, seq->UID map and every learned
// flag set; sequence numbers dense and UIDs strictly ascending.
func (s *Session) CompareWithMirror(msgs []PMsg) error {
	if len(msgs) != len(s.Mirror.Msgs) {
		return fmt.Errorf("count: server answers %d messages, client was told %d (mirror: %s; probe: %v)", len(msgs), len(s.Mirror.Msgs), s.Mirror.String(), msgs)
	}

	var last uint32

	for i, m := range msgs {
		if m.Seq != uint32(i+1) {
			return fmt.Errorf("sequence numbers not dense: position %d has seq %d (probe %v)", i+1, m.Seq, msgs)
		}

		if m.UID <= last {
			return fmt.Errorf("UIDs not strictly ascending at seq %d: %d after %d (probe %v)", m.Seq, m.UID, last, msgs)
		}

		last = m.UID
		mm := s.Mirror.Msgs[i]

		if mm.UIDKnown && mm.UID != m.UID {
			return fmt.Errorf("seq %d: server says UID %d, client learned UID %d (mirror: %s; probe: %v)", m.Seq, m.UID, mm.UID, s.Mirror.String(), msgs)
		}

		if mm.FlagsKnown && !imapc.SameFlags(mm.Flags, m.Flags) {
			return fmt.Errorf("seq %d uid %d: server says flags %v, client learned %v (mirror: %s)", m.Seq, m.UID, m.Flags, mm.Flags, s.Mirror.String())
		}
	}

	return nil
}

// GateClose holds back every update queued for this session from now on.
func (s *Session) GateClose() {
	gluon.VerifGateSetClosed(s.StateID, true)
	s.Gated = true
}

// GateOpen stops holding back (already held updates stay held until released).
func (s *Session) GateOpen() {
	gluon.VerifGateSetClosed(s.StateID, false)
	s.Gated = false
}

// Release lets k held-back updates (all if k<0) through to the session; returns the number released.
func (s *Session) Release(k int) int {
	n := gluon.VerifGateRelease(s.StateID, k)
	if n > 0 {
		s.Bed.Hist.Add("%s: gate released %d", s.Name, n)
	}

	return n
}

// Held returns the number of updates held back for the session.
func (s *Session) Held() int { return gluon.VerifGatePending(s.StateID) }

// HeldStrings describes the held-back updates.
func (s *Session) HeldStrings() []string { return gluon.VerifGatePendingStrings(s.StateID) }

// Logout sends LOGOUT and closes.
func (s *Session) Logout() {
	if !s.Dead {
		s.Client.Cmd("LOGOUT")
	}

	s.Client.Close()

	if s.User != nil && s.StateID != 0 {
		var keep []int64

		for _, id := range s.Bed.Server.VerifStateIDs(s.User.ID) {
			if id != s.StateID {
				keep = append(keep, id)
			}
		}

		s.Bed.waitStatesGone(s.User, keep)
	}

	gluon.VerifGateForget(s.StateID)
}

// FreshMsg is one message as a newly opened session sees it.
type FreshMsg struct {
	UID   uint32
	Flags []string // normalised, without \recent
	Body  string   // BODY.PEEK[] if requested
	Size  int
	Date  string
}

// FreshView opens a new connection, EXAMINEs the mailbox and reads its authoritative content.
// ok=false (with nil error) means the mailbox cannot be examined (does not exist / NO).
func (b *Bed) FreshView(u *User, mbox string, withBody bool) (msgs []FreshMsg, uidValidity, uidNext uint32, ok bool, err error) {
	hist := b.Hist
	c, err := imapc.Dial(b.Addr, "fv", nil, b.Opts.ClientTimeout)
	if err != nil {
		return nil, 0, 0, false, err
	}

	before := b.Server.VerifStateIDs(u.ID)

	// the state of this throw-away session must be gone before anyone places a barrier again
	defer b.waitStatesGone(u, before)
	defer c.Close()

	if r := c.Cmdf("LOGIN %s %s", quote(u.Name), quote(u.Pass)); !r.OK() {
		return nil, 0, 0, false, fmt.Errorf("fresh view login: %v", r)
	}

	defer c.Cmd("LOGOUT")

	r := c.Cmdf("EXAMINE %s", quote(mbox))
	if r.Err != nil {
		return nil, 0, 0, false, r.Err
	}

	if !r.OK() {
		hist.Add("fresh(%s): EXAMINE %s -> %s %s", u.Name, mbox, r.Status, r.Text)
		return nil, 0, 0, false, nil
	}

	count := -1

	for _, un := range r.Untagged {
		if n, kw, k := un.Num(); k && kw == "EXISTS" {
			count = int(n)
		}

		if un.Status == "OK" {
			f := strings.Fields(un.Code)
			if len(f) == 2 {
				v, _ := strconv.ParseUint(f[1], 10, 32)

				switch strings.ToUpper(f[0]) {
				case "UIDVALIDITY":
					uidValidity = uint32(v)
				case "UIDNEXT":
					uidNext = uint32(v)
				}
			}
		}
	}

	items := "(FLAGS INTERNALDATE RFC822.SIZE)"
	if withBody {
		items = "(FLAGS INTERNALDATE RFC822.SIZE BODY.PEEK[])"
	}

	fr := c.Cmd("UID FETCH 1:* " + items)
	if !fr.OK() {
		return nil, 0, 0, false, fmt.Errorf("fresh view fetch: %v", fr)
	}

	type row struct {
		seq uint32
		m   FreshMsg
	}

	var rows []row

	for _, un := range fr.Untagged {
		n, kw, k := un.Num()
		if !k || kw != "FETCH" {
			continue
		}

		it, k := imapc.FetchItems(un)
		if !k {
			return nil, 0, 0, false, fmt.Errorf("fresh view: malformed FETCH %s", un.Raw)
		}

		uid, _ := strconv.ParseUint(it["UID"].Str, 10, 32)
		size, _ := strconv.Atoi(it["RFC822.SIZE"].Str)
		m := FreshMsg{UID: uint32(uid), Flags: imapc.WithoutFlag(imapc.FlagSet(it["FLAGS"]), `\recent`), Size: size, Date: it["INTERNALDATE"].Str}

		if withBody {
			m.Body = it["BODY[]"].Str
		}

		rows = append(rows, row{n, m})
	}

	sort.Slice(rows, func(i, j int) bool { return rows[i].seq < rows[j].seq })

	for i, rw := range rows {
		if rw.seq != uint32(i+1) {
			return nil, 0, 0, false, fmt.Errorf("fresh view: sequence numbers not dense: %d at position %d", rw.seq, i+1)
		}

		if i > 0 && rows[i-1].m.UID >= rw.m.UID {
			return nil, 0, 0, false, fmt.Errorf("fresh view: UIDs not ascending: %d then %d", rows[i-1].m.UID, rw.m.UID)
		}

		msgs = append(msgs, rw.m)
	}

	if count >= 0 && count != len(msgs) {
		return nil, 0, 0, false, fmt.Errorf("fresh view: EXISTS %d but %d messages fetched", count, len(msgs))
	}

	if hist != nil {
		var sb strings.Builder
		for _, m := range msgs {
			fmt.Fprintf(&sb, "%d%v ", m.UID, m.Flags)
		}

		hist.Add("fresh(%s): %s uidvalidity=%d uidnext=%d: %s", u.Name, mbox, uidValidity, uidNext, sb.String())
	}

	return msgs, uidValidity, uidNext, true, nil
}

// waitStatesGone waits (bounded, not a correctness signal) until the user has no states other than the given ones.
func (b *Bed) waitStatesGone(u *User, keep []int64) {
	k := map[int64]bool{}
	for _, id := range keep {
		k[id] = true
	}

	for i := 0; i < 4000; i++ {
		extra := false

		for _, id := range b.Server.VerifStateIDs(u.ID) {
			if !k[id] {
				extra = true
			}
		}

		if !extra {
			return
		}

		time.Sleep(500 * time.Microsecond)

		if i > 200 {
			time.Sleep(5 * time.Millisecond)
		}
	}
}

// CheckPanics returns an error if any gluon goroutine panicked.
func (b *Bed) CheckPanics() error {
	if p := b.Panics.Get(); len(p) > 0 {
		return fmt.Errorf("gluon goroutine panicked (the default handler would have crashed the process): %s", p[0])
	}

	return nil
}
