package mach

import (
	"fmt"
	"strings"

	"pgregory.net/rapid"

	"verif/internal/bed"
	"verif/internal/imapc"
)

// Rec records one generated case.
type Rec struct {
	Ops        []string
	Nontrivial bool
	Stop       bool // a listed known finding was hit: the rest of the case is void
}

func (c *Rec) Op(format string, a ...any) { c.Ops = append(c.Ops, fmt.Sprintf(format, a...)) }

// Hooks lets a property observe the machine.
type Hooks struct {
	// OnCmd is called after every client command of the rule set (kind = rule name), e.g. for wire monitors.
	OnCmd func(t *rapid.T, s *Sess, kind string, r *imapc.Result)
	// Invariant runs after every step (the "" action).
	Invariant func(t *rapid.T)
	// Extra actions.
	Extra map[string]func(*rapid.T)
	// Weights duplicates actions (name -> number of extra copies) to bias the generator.
	Weights map[string]int
}

// Actions builds the rule set of the multi-party machine (DESIGN.md C01 Domain).
func (w *World) Actions(rec *Rec, h Hooks) map[string]func(*rapid.T) {
	on := func(t *rapid.T, s *Sess, kind string, r *imapc.Result) {
		if h.OnCmd != nil && r != nil {
			h.OnCmd(t, s, kind, r)
		}
	}

	actions := map[string]func(*rapid.T){
		"append": func(t *rapid.T) {
			s := w.PickSess(t, w.Actors())
			box := w.PickBox(t)
			r, m := w.Append(t, s, box)
			rec.Op("%s append %s %s -> %s", s.Name, box, m, r.Status)
			on(t, s, "append", r)
		},
		"store": func(t *rapid.T) {
			s := w.PickSess(t, w.FreeSelected(true))
			r, rg := w.Store(t, s)
			rec.Op("%s %s -> %s", s.Name, r.Cmd, r.Status)
			_ = rg
			on(t, s, "store", r)
		},
		"expunge": func(t *rapid.T) {
			s := w.PickSess(t, w.FreeSelected(true))
			r := w.Expunge(t, s)
			rec.Op("%s expunge -> %s", s.Name, r.Status)
			on(t, s, "expunge", r)
		},
		"uidexpunge": func(t *rapid.T) {
			s := w.PickSess(t, w.FreeSelected(true))
			r := w.UIDExpunge(t, s)
			rec.Op("%s %s -> %s", s.Name, r.Cmd, r.Status)
			on(t, s, "expunge", r)
		},
		"copy": func(t *rapid.T) {
			s := w.PickSess(t, w.ActorsSelected())
			r, _, _ := w.Copy(t, s, false)
			rec.Op("%s %s -> %s", s.Name, r.Cmd, r.Status)
			on(t, s, "copy", r)
		},
		"move": func(t *rapid.T) {
			s := w.PickSess(t, w.FreeSelected(true))
			r, _, _ := w.Copy(t, s, true)
			rec.Op("%s %s -> %s", s.Name, r.Cmd, r.Status)
			on(t, s, "move", r)
		},
		"fetch": func(t *rapid.T) {
			s := w.PickSess(t, w.FreeSelected(false))
			r := w.Fetch(t, s)
			rec.Op("%s %s -> %s", s.Name, r.Cmd, r.Status)
			on(t, s, "fetch", r)
		},
		"search": func(t *rapid.T) {
			s := w.PickSess(t, w.FreeSelected(false))
			r := w.Search(t, s)
			rec.Op("%s %s -> %s", s.Name, r.Cmd, r.Status)
			on(t, s, "search", r)
		},
		"noop": func(t *rapid.T) {
			s := w.PickSess(t, w.Free())
			r := w.Noop(s)
			rec.Op("%s noop", s.Name)
			on(t, s, "noop", r)
		},
		"check": func(t *rapid.T) {
			s := w.PickSess(t, w.FreeSelected(false))
			r := w.Check(s)
			rec.Op("%s check", s.Name)
			on(t, s, "check", r)
		},
		"status": func(t *rapid.T) {
			s := w.PickSess(t, w.FreeSelected(false))
			r := w.Status(s, s.Selected)
			rec.Op("%s status", s.Name)
			on(t, s, "status", r)
		},
		"reselect": func(t *rapid.T) {
			s := w.PickSess(t, w.Free())
			r := w.Reselect(t, s)
			rec.Op("%s %s -> %s", s.Name, r.Cmd, r.Status)
			on(t, s, "select", r)
		},
		"close": func(t *rapid.T) {
			s := w.PickSess(t, w.FreeSelected(false))
			r := w.CloseMailbox(t, s)
			rec.Op("%s %s -> %s", s.Name, r.Cmd, r.Status)
			on(t, s, "close", r)
		},
		"idleStart": func(t *rapid.T) {
			s := w.PickSess(t, w.FreeSelected(false))
			w.IdleStart(s)
			rec.Op("%s idle", s.Name)
		},
		"idleDone": func(t *rapid.T) {
			var idling []*Sess

			for _, s := range w.S {
				if s.Idling != nil && !s.Dead {
					idling = append(idling, s)
				}
			}

			s := w.PickSess(t, idling)
			r := w.IdleDone(s)
			rec.Op("%s done", s.Name)
			on(t, s, "idle", r)
		},
		"release": func(t *rapid.T) {
			if !w.Cfg.Deterministic {
				t.Skip("gate open")
			}

			var held []*Sess

			for _, s := range w.S {
				if !s.Dead && s.Held() > 0 {
					held = append(held, s)
				}
			}

			s := w.PickSess(t, held)
			k := rapid.IntRange(1, s.Held()).Draw(t, "k")
			n := w.Release(s, k)
			rec.Op("release %s %d", s.Name, n)
		},
		"releaseAll": func(t *rapid.T) {
			w.ReleaseAll()
			rec.Op("releaseAll")
		},
		"connCreate": func(t *rapid.T) {
			box := w.PickBox(t)
			d, m := w.ConnCreate(t, box)
			rec.Op("conn create %s in %s err=%v", m, box, d.Err)
		},
		// One message in two mailboxes, \Deleted on the copy another session looks at, then a flag change through the
		// first mailbox (\Deleted is per mailbox, every other flag is shared): a sequence the independent actions
		// reach only rarely.
		"crossBoxFlags": func(t *rapid.T) {
			if len(w.Boxes) < 2 {
				t.Skip("one mailbox only")
			}

			var watchers []*Sess

			for _, s := range w.FreeSelected(false) {
				if s.Passive || len(w.Actors()) > 1 {
					watchers = append(watchers, s)
				}
			}

			p := w.PickSess(t, watchers)

			var actors []*Sess

			for _, s := range w.Actors() {
				if s != p {
					actors = append(actors, s)
				}
			}

			a := w.PickSess(t, actors)
			y := p.Selected

			var others []string

			for _, b := range w.Boxes {
				if !strings.EqualFold(b, y) {
					others = append(others, b)
				}
			}

			x := pick(t, "xbox", others)

			do := func(s *Sess, kind, cmd string) *imapc.Result {
				r := s.Do(cmd)
				rec.Op("%s %s -> %s", s.Name, r.Cmd, r.Status)
				on(t, s, kind, r)

				return r
			}

			sel := func(box string) bool {
				w.SteerSelect(a)

				r := a.Select(box, false)
				rec.Op("%s %s -> %s", a.Name, r.Cmd, r.Status)
				on(t, a, "select", r)

				return r.OK()
			}

			w.Label("op:crossBoxFlags")

			if !sel(x) {
				return
			}

			if len(a.Mirror.Msgs) == 0 {
				r, m := w.Append(t, a, x)
				rec.Op("%s append %s %s -> %s", a.Name, x, m, r.Status)
				on(t, a, "append", r)

				if !r.OK() || len(a.Mirror.Msgs) == 0 {
					return
				}
			}

			n := rapid.IntRange(1, len(a.Mirror.Msgs)).Draw(t, "n")

			if r := do(a, "copy", fmt.Sprintf("COPY %d %s", n, bed.Quote(y))); !r.OK() {
				return
			}

			if !sel(y) || len(a.Mirror.Msgs) == 0 {
				return
			}

			if r := do(a, "store", `STORE * +FLAGS (\Deleted)`); !r.OK() {
				return
			}

			if !sel(x) || len(a.Mirror.Msgs) < n {
				return
			}

			do(a, "store", fmt.Sprintf("STORE %d %s (%s)", n, pick(t, "op", []string{"+FLAGS", "-FLAGS", "FLAGS"}), pick(t, "flag", []string{`\Flagged`, `\Seen`, `\Answered`, "kw1"})))
		},
		// A burst by one session: flag changes before and after the removal of an earlier message, with nobody else
		// flushing in between - the other sessions get all of it in one batch (merging of the untagged responses).
		"burst": func(t *rapid.T) {
			var cands []*Sess

			for _, s := range w.FreeSelected(true) {
				if len(s.Mirror.Msgs) >= 3 {
					cands = append(cands, s)
				}
			}

			a := w.PickSess(t, cands)

			do := func(kind, cmd string) *imapc.Result {
				r := a.Do(cmd)
				rec.Op("%s %s -> %s", a.Name, r.Cmd, r.Status)
				on(t, a, kind, r)

				return r
			}

			flag := func() string {
				return pick(t, "bflag", []string{`\Flagged`, `\Answered`, `\Seen`, `\Draft`, "kw1"})
			}

			w.Label("op:burst")

			n := len(a.Mirror.Msgs)
			k := rapid.IntRange(1, n-1).Draw(t, "victim")

			for i, m := 0, rapid.IntRange(1, 2).Draw(t, "before"); i < m; i++ {
				do("store", fmt.Sprintf("STORE %d %sFLAGS (%s)", rapid.IntRange(k+1, n).Draw(t, "later"), pick(t, "bop", []string{"+", "-", "+"}), flag()))
			}

			if r := do("store", fmt.Sprintf(`STORE %d +FLAGS (\Deleted)`, k)); !r.OK() {
				return
			}

			w.steerOwnRemoval(a)

			if r := do("expunge", "EXPUNGE"); !r.OK() {
				return
			}

			for i, m := 0, rapid.IntRange(1, 2).Draw(t, "after"); i < m && len(a.Mirror.Msgs) >= k; i++ {
				do("store", fmt.Sprintf("STORE %d %sFLAGS (%s)", rapid.IntRange(k, len(a.Mirror.Msgs)).Draw(t, "shifted"), pick(t, "bop", []string{"+", "-", "+"}), flag()))
			}
		},
		"connCreateDelete": func(t *rapid.T) {
			box := w.PickBox(t)
			d1, d2, m := w.ConnCreateDelete(t, box)
			rec.Op("conn create %s in %s err=%v; removed again: %s err=%v", m, box, d1.Err, d2.Update, d2.Err)
		},
		"connFlags": func(t *rapid.T) {
			d := w.ConnFlags(t)
			rec.Op("conn %s err=%v", d.Update, d.Err)
		},
		"connBoxes": func(t *rapid.T) {
			d := w.ConnBoxes(t)
			rec.Op("conn %s err=%v", d.Update, d.Err)
		},
		"connDelete": func(t *rapid.T) {
			d := w.ConnDelete(t)
			rec.Op("conn %s err=%v", d.Update, d.Err)
		},
	}

	for name, fn := range h.Extra {
		actions[name] = fn
	}

	if h.Invariant != nil {
		actions[""] = h.Invariant
	}

	for name, n := range h.Weights {
		if fn, ok := actions[name]; ok {
			for i := 0; i < n; i++ {
				actions[fmt.Sprintf("%s#%d", name, i+2)] = fn
			}
		}
	}

	for name, fn := range actions {
		fn := fn
		actions[name] = func(t *rapid.T) {
			if !rec.Stop {
				fn(t)
			}
		}
	}

	return actions
}

// EndIdles finishes every IDLE in progress.
func (w *World) EndIdles() {
	for _, s := range w.S {
		if s.Idling != nil && !s.Dead {
			w.IdleDone(s)
		}
	}
}
