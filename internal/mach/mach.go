// Package mach is the shared multi-party state machine of the full-stack properties (C01, C02, C05, …): a World
// holds a test bed, the sessions of one user, the mailboxes and the markers of all messages, and offers the drawn
// operations (rules). Oracles live in the property packages; this package only acts and records.
package mach

import (
	"fmt"
	"sort"
	"strconv"
	"strings"
	"time"

	"github.com/ProtonMail/gluon/imap"
	"pgregory.net/rapid"

	"verif/internal/bed"
	"verif/internal/ev"
	"verif/internal/imapc"
	"verif/internal/kf"
	"verif/internal/vconn"
)

// Msg builds a small valid RFC 5322 message carrying a unique marker.
func Msg(marker string, extra string) []byte {
	return []byte("From: Alice <alice@example.com>\r\n" +
		"To: Bob <bob@example.com>\r\n" +
		"Subject: " + marker + "\r\n" +
		"Date: Mon, 02 Jan 2006 15:04:05 +0000\r\n" +
		"X-Verif-Marker: " + marker + "\r\n" +
		"\r\n" +
		"body of " + marker + " " + extra + "\r\n")
}

// MarkerOf extracts the marker from message bytes ("" if none).
func MarkerOf(body string) string {
	const key = "X-Verif-Marker: "

	i := strings.Index(body, key)
	if i < 0 {
		return ""
	}

	rest := body[i+len(key):]
	if j := strings.IndexAny(rest, "\r\n"); j >= 0 {
		rest = rest[:j]
	}

	return rest
}

// Sess is a session of the world.
type Sess struct {
	*bed.Session
	Idling  *imapc.Result // non-nil while the session is in IDLE
	Idx     int
	Foreign int // snapshot changes that reached this session from another party since its last probe
	Bulk    int // releases of two or more held-back updates at once (several updates processed between two flushes)
	Passive bool // an observer: it only issues commands that change nothing (NOOP, CHECK, STATUS, SEARCH, FETCH of FLAGS / BODY.PEEK, IDLE, SELECT)
}

type Config struct {
	NSess         int
	Boxes         []string // mailbox names; INBOX exists already, the others are created
	Opts          bed.Options
	Deterministic bool // gates closed, barrier after every release
	Prefill       int  // up to this many messages per mailbox are created (through the connector) before the sessions select
	NPassive      int  // the first NPassive sessions are passive observers
}

type World struct {
	Cfg    Config
	Bed    *bed.Bed
	U      *bed.User
	Boxes  []string
	S      []*Sess
	nMark  int
	Labels map[string]int
	// Markers of messages ever created through the connector, with their remote id.
	Remote map[string]imap.MessageID
}

// NewWorld starts a bed, creates the mailboxes, logs the sessions in and lets each select a drawn mailbox.
func NewWorld(t *rapid.T, cfg Config) *World {
	b, err := bed.Start(cfg.Opts, bed.UserSpec{Name: "user", Pass: "pass"})
	if err != nil {
		t.Fatalf("bed: %v", err)
	}

	w := &World{Cfg: cfg, Bed: b, U: b.Users[0], Boxes: cfg.Boxes, Labels: map[string]int{}, Remote: map[string]imap.MessageID{}}

	for i := 0; i < cfg.NSess; i++ {
		s, err := b.Login(fmt.Sprintf("s%d", i), w.U)
		if err != nil {
			w.Close()
			t.Fatalf("login: %v", err)
		}

		if i == 0 {
			for _, box := range cfg.Boxes {
				if !strings.EqualFold(box, "INBOX") {
					if r := s.Do("CREATE " + bed.Quote(box)); !r.OK() {
						w.Close()
						t.Fatalf("create %s: %v", box, r)
					}
				}
			}
		}

		if cfg.Deterministic {
			s.GateClose()
		}

		w.S = append(w.S, &Sess{Session: s, Idx: i, Passive: i < cfg.NPassive})
	}

	for _, box := range cfg.Boxes {
		for i, n := 0, rapid.IntRange(0, cfg.Prefill).Draw(t, "prefill"); i < n; i++ {
			w.ConnCreate(t, box)
		}
	}

	return w
}

func (w *World) Close() {
	for _, s := range w.S {
		if s.Idling != nil && !s.Dead {
			s.Client.IdleDone(s.Idling)
		}

		s.Logout()
	}

	w.Bed.Destroy()
}

func (w *World) Label(l string) { w.Labels[l]++ }

func (w *World) NewMarker() string {
	w.nMark++
	return "m" + strconv.Itoa(w.nMark)
}

// Free returns the sessions that can take a command (alive, not idling).
func (w *World) Free() []*Sess {
	var res []*Sess

	for _, s := range w.S {
		if !s.Dead && s.Idling == nil {
			res = append(res, s)
		}
	}

	return res
}

// FreeSelected returns free sessions with a selected mailbox; mutating=true leaves out read-only and passive ones.
func (w *World) FreeSelected(mutating bool) []*Sess {
	var res []*Sess

	for _, s := range w.Free() {
		if s.Selected != "" && (!mutating || (!s.ReadOnly && !s.Passive)) {
			res = append(res, s)
		}
	}

	return res
}

// Actors returns the free sessions that may change things.
func (w *World) Actors() []*Sess {
	var res []*Sess

	for _, s := range w.Free() {
		if !s.Passive {
			res = append(res, s)
		}
	}

	return res
}

// ActorsSelected returns the free, selected, non-passive sessions (they may be read-only: COPY is allowed there).
func (w *World) ActorsSelected() []*Sess {
	var res []*Sess

	for _, s := range w.FreeSelected(false) {
		if !s.Passive {
			res = append(res, s)
		}
	}

	return res
}

func pick[T any](t *rapid.T, label string, xs []T) T {
	return xs[rapid.IntRange(0, len(xs)-1).Draw(t, label)]
}

// PickSess draws one of the given sessions; skips the step if there is none.
func (w *World) PickSess(t *rapid.T, ss []*Sess) *Sess {
	if len(ss) == 0 {
		t.Skip("no eligible session")
	}

	return pick(t, "sess", ss)
}

func (w *World) PickBox(t *rapid.T) string { return pick(t, "box", w.Boxes) }

// Flags vocabulary for the simple machines.
var SimpleFlags = []string{`\Seen`, `\Flagged`, `\Deleted`, `\Answered`, `\Draft`, `kw1`, `$kw2`}

func DrawFlags(t *rapid.T, label string, vocab []string, min int) []string {
	n := rapid.IntRange(min, 3).Draw(t, label+"N")
	seen := map[string]bool{}

	var res []string

	for i := 0; i < n; i++ {
		f := pick(t, label, vocab)
		if !seen[strings.ToLower(f)] {
			seen[strings.ToLower(f)] = true

			res = append(res, f)
		}
	}

	return res
}

// Range is a drawn message set over the current Mirror, together with the 0-based positions it addresses.
type Range struct {
	Text string
	UID  bool
	Pos  []int
}

// DrawRange draws a valid set (single, range, 1:*) against the session's Mirror; nil if the view is empty.
func (w *World) DrawRange(t *rapid.T, s *Sess) *Range {
	n := len(s.Mirror.Msgs)
	if n == 0 {
		return nil
	}

	lo := rapid.IntRange(1, n).Draw(t, "lo")
	hi := lo

	switch rapid.IntRange(0, 3).Draw(t, "shape") {
	case 0: // single
	case 1, 2:
		hi = rapid.IntRange(lo, n).Draw(t, "hi")
	case 3:
		lo, hi = 1, n
	}

	r := &Range{}
	for p := lo; p <= hi; p++ {
		r.Pos = append(r.Pos, p-1)
	}

	uidOK := s.Mirror.Msgs[lo-1].UIDKnown && s.Mirror.Msgs[hi-1].UIDKnown
	r.UID = uidOK && rapid.Bool().Draw(t, "uid")

	a, b := uint32(lo), uint32(hi)
	if r.UID {
		a, b = s.Mirror.Msgs[lo-1].UID, s.Mirror.Msgs[hi-1].UID
	}

	switch {
	case a == b:
		r.Text = fmt.Sprint(a)
	case hi == n && rapid.Bool().Draw(t, "star"):
		r.Text = fmt.Sprintf("%d:*", a)
	case rapid.Bool().Draw(t, "rev"):
		r.Text = fmt.Sprintf("%d:%d", b, a)
	default:
		r.Text = fmt.Sprintf("%d:%d", a, b)
	}

	return r
}

func (r *Range) Prefix() string {
	if r.UID {
		return "UID "
	}

	return ""
}

// ---- client operations ----

// KfOwnOvertakes is the id of the listed finding "a session applies its own membership changes (APPEND / COPY / MOVE
// into, MOVE / EXPUNGE out of its selected mailbox) in-line, ahead of older updates of other parties that are still
// queued for it". Symptoms when the queued updates are processed afterwards: (a) an addition with a lower UID than
// one already in view is sorted into the middle of the view, or the session's own addition is refused with "UIDs must
// be strictly ascending"; (b) a message the session itself has meanwhile removed is re-added as a ghost; (c) a
// message the session itself has re-added (same-mailbox COPY) is ignored because the old instance is still in view,
// and is then removed by the queued removal. While it is listed, the machines drain whatever is queued for a session
// before it changes the membership of its own selected mailbox.
const KfOwnOvertakes = "C01-own-change-overtakes-queued-updates"

// KfLateLowerUID is the former name of the same finding (symptom a).
const KfLateLowerUID = KfOwnOvertakes

// KfOwnRemovalOvertakes is the former name of the same finding (symptom b).
const KfOwnRemovalOvertakes = KfOwnOvertakes

// KfStaleAfterSelect is the id of the listed finding "updates queued for a session before its SELECT/EXAMINE are
// applied to the snapshot taken by that SELECT" (a message the snapshot no longer holds is re-added as a ghost).
const KfStaleAfterSelect = "C02-stale-update-after-select"

// SteerSelect is called before a SELECT/EXAMINE: while the finding is listed, nothing may be queued for the session
// (held back by the gate, or - gate open - still unprocessed in its queue) when the snapshot is taken.
func (w *World) SteerSelect(s *Sess) {
	if !kf.Listed(KfStaleAfterSelect) {
		return
	}

	w.drainQueued(s)
}

func (w *World) steerOwnAdd(s *Sess, dst string) {
	if s.Selected == "" || !strings.EqualFold(dst, s.Selected) || !kf.Listed(KfOwnOvertakes) {
		return
	}

	w.drainQueued(s)
}

func (w *World) steerOwnRemoval(s *Sess) {
	if s.Selected == "" || !kf.Listed(KfOwnOvertakes) {
		return
	}

	w.drainQueued(s)
}

// drainQueued makes sure that nothing is queued for the session: gate closed - everything held back is released and
// processed (counted as excluded_known); gate open - a barrier.
func (w *World) drainQueued(s *Sess) {
	if !w.Cfg.Deterministic {
		w.Barrier()
		return
	}

	if s.Held() > 0 {
		ev.Excluded(1)
		w.Release(s, -1)
	}
}

func (w *World) Append(t *rapid.T, s *Sess, box string) (*imapc.Result, string) {
	marker := w.NewMarker()
	flags := DrawFlags(t, "aflag", SimpleFlags, 0)
	fl := ""

	w.steerOwnAdd(s, box)

	if len(flags) > 0 {
		fl = "(" + strings.Join(flags, " ") + ") "
	}

	r := s.DoParts(imapc.T("APPEND "+bed.Quote(box)+" "+fl), imapc.L(Msg(marker, "")))
	w.Label("op:append")

	return r, marker
}

func (w *World) Store(t *rapid.T, s *Sess) (*imapc.Result, *Range) {
	rg := w.DrawRange(t, s)
	if rg == nil {
		t.Skip("empty view")
	}

	op := pick(t, "storeop", []string{"+FLAGS", "-FLAGS", "FLAGS"})
	silent := rapid.Bool().Draw(t, "silent")
	flags := DrawFlags(t, "sflag", SimpleFlags, 0)

	if silent {
		op += ".SILENT"
	}

	r := s.Do(fmt.Sprintf("%sSTORE %s %s (%s)", rg.Prefix(), rg.Text, op, strings.Join(flags, " ")))
	if silent {
		// a silent store sends no FETCH: the client no longer knows these flags from untagged data
		s.Mirror.ForgetFlags(rg.Pos...)
		w.Label("op:store.silent")
	} else {
		w.Label("op:store")
	}

	return r, rg
}

func (w *World) Expunge(t *rapid.T, s *Sess) *imapc.Result {
	w.Label("op:expunge")
	w.steerOwnRemoval(s)
	return s.Do("EXPUNGE")
}

func (w *World) UIDExpunge(t *rapid.T, s *Sess) *imapc.Result {
	rg := w.DrawRange(t, s)
	if rg == nil || !rg.UID {
		t.Skip("no uid range")
	}

	w.Label("op:uidexpunge")
	w.steerOwnRemoval(s)

	return s.Do("UID EXPUNGE " + rg.Text)
}

func (w *World) Copy(t *rapid.T, s *Sess, move bool) (*imapc.Result, *Range, string) {
	rg := w.DrawRange(t, s)
	if rg == nil {
		t.Skip("empty view")
	}

	dst := w.PickBox(t)
	verb := "COPY"

	if move {
		verb = "MOVE"
	}

	w.Label("op:" + strings.ToLower(verb))
	w.steerOwnAdd(s, dst)

	if move {
		w.steerOwnRemoval(s)
	}

	if strings.EqualFold(dst, s.Selected) {
		w.Label("op:" + strings.ToLower(verb) + ".same")
	}

	r := s.Do(fmt.Sprintf("%s%s %s %s", rg.Prefix(), verb, rg.Text, bed.Quote(dst)))

	// A copy onto the selected mailbox leaves the session's own re-additions pending behind the held-back expunges;
	// if a higher UID enters the view before they are flushed, the same listed finding (late lower UID) results.
	if strings.EqualFold(dst, s.Selected) && r.OK() && !move && w.Cfg.Deterministic && kf.Listed(KfLateLowerUID) {
		ev.Excluded(1)
		s.Do("NOOP")
	}

	return r, rg, dst
}

func (w *World) Fetch(t *rapid.T, s *Sess) *imapc.Result {
	rg := w.DrawRange(t, s)
	if rg == nil {
		t.Skip("empty view")
	}

	// (BODY[2.1] / BODY[9]: parts the generated messages do not have - such a FETCH may be refused, and a refused
	// command must leave the view as it was)
	items := []string{"BODY[]", "BODY.PEEK[]", "(FLAGS)", "(UID FLAGS)", "RFC822", "BODY[TEXT]", "ENVELOPE", "BODY[2.1]", "(FLAGS BODY[9])"}
	if s.Passive {
		items = []string{"BODY.PEEK[]", "(FLAGS)", "(UID FLAGS)", "ENVELOPE", "BODY.PEEK[TEXT]", "RFC822.SIZE"}

		// in a mailbox opened with EXAMINE nothing a FETCH does changes anything: the forms without PEEK are passive too
		if s.ReadOnly {
			items = append(items, "BODY[]", "RFC822", "BODY[TEXT]", "(FLAGS BODY[])")
		}
	}

	item := pick(t, "fitem", items)
	w.Label("op:fetch")

	// sometimes several items in one command (FLAGS together with an item that sets \Seen, in either order)
	if rapid.IntRange(0, 2).Draw(t, "combine") == 0 {
		parts := []string{strings.Trim(item, "()")}

		for i, n := 0, rapid.IntRange(1, 2).Draw(t, "more"); i < n; i++ {
			parts = append(parts, strings.Trim(pick(t, "fitem", items), "()"))
		}

		item = "(" + strings.Join(parts, " ") + ")"

		w.Label("op:fetch.combined")
	}

	if strings.Contains(item, "BODY[]") || strings.Contains(item, "RFC822") && !strings.Contains(item, "RFC822.SIZE") || strings.Contains(item, "BODY[TEXT]") {
		w.Label("op:fetch.seen")

		if strings.Contains(item, "FLAGS") {
			w.Label("op:fetch.seen+flags")
		}
	}

	return s.Do(fmt.Sprintf("%sFETCH %s %s", rg.Prefix(), rg.Text, item))
}

// Search issues a simple SEARCH (the result is not judged here).
func (w *World) Search(t *rapid.T, s *Sess) *imapc.Result {
	key := pick(t, "skey", []string{"ALL", "SEEN", "UNSEEN", "DELETED", "FLAGGED", "1:*", "NOT DELETED", "SUBJECT m1"})
	uid := ""

	if rapid.Bool().Draw(t, "uid") {
		uid = "UID "
	}

	w.Label("op:search")

	return s.Do(uid + "SEARCH " + key)
}

func (w *World) Noop(s *Sess) *imapc.Result  { w.Label("op:noop"); return s.Do("NOOP") }
func (w *World) Check(s *Sess) *imapc.Result { w.Label("op:check"); return s.Do("CHECK") }

func (w *World) Status(s *Sess, box string) *imapc.Result {
	w.Label("op:status")
	return s.Do("STATUS " + bed.Quote(box) + " (MESSAGES UIDNEXT RECENT UNSEEN)")
}

func (w *World) Reselect(t *rapid.T, s *Sess) *imapc.Result {
	box := w.PickBox(t)
	examine := rapid.IntRange(0, 4).Draw(t, "examine") == 0
	w.Label("op:select")

	w.SteerSelect(s)

	return s.Select(box, examine)
}

func (w *World) CloseMailbox(t *rapid.T, s *Sess) *imapc.Result {
	w.Label("op:close")
	return s.Unselect(rapid.Bool().Draw(t, "closeNotUnselect"))
}

// IdleStart puts the session into IDLE.
func (w *World) IdleStart(s *Sess) {
	res, ok := s.Client.IdleStart()
	w.Label("op:idle")

	if !ok {
		for _, u := range res.Untagged {
			s.Mirror.Apply(u)
		}

		if res.Err != nil {
			s.Dead = true
		}

		return
	}

	s.Idling = res
}

// IdleDone ends IDLE; everything pushed meanwhile is applied to the Mirror.
func (w *World) IdleDone(s *Sess) *imapc.Result {
	res := s.Idling
	s.Idling = nil
	s.Client.IdleDone(res)

	if res.Err != nil || res.Bye {
		s.Dead = true
	}

	for _, u := range res.Untagged {
		s.Mirror.Apply(u)
	}

	// with response bulking, buffered pushes may be written after the tagged OK
	if d := w.Cfg.Opts.IdleBulk; d > 0 && !s.Dead {
		w.Drain(s, 6*d+20*time.Millisecond)
	}

	return res
}

// Drain applies untagged responses that arrive outside a command within d.
func (w *World) Drain(s *Sess, d time.Duration) int {
	n := 0

	for {
		r, err := s.Client.TryReadResponse(d)
		if err != nil {
			s.Dead = true
			return n
		}

		if r == nil {
			return n
		}

		if r.Status == "BYE" {
			s.Dead = true
		}

		s.Mirror.Apply(r)

		n++
	}
}

// Release lets k held-back updates through to the session and (deterministic mode) waits until it has processed them.
func (w *World) Release(s *Sess, k int) int {
	n := s.Release(k)
	if n > 0 {
		s.Foreign += n
		w.Label("gate:release")
	}

	if n > 1 {
		s.Bulk++
		w.Label("gate:release.bulk")
	}

	if w.Cfg.Deterministic {
		w.Barrier()
	}

	return n
}

func (w *World) Barrier() {
	if err := w.Bed.Barrier(w.U); err != nil {
		panic(fmt.Sprintf("VERIF-INCONCLUSIVE: barrier: %v", err))
	}
}

// ReleaseAll releases everything held for every session and waits for quiescence.
func (w *World) ReleaseAll() {
	for _, s := range w.S {
		if !s.Dead {
			if n := s.Release(-1); n > 0 {
				s.Foreign += n
			}
		}
	}

	w.Barrier()
}

// ---- connector operations ----

func (w *World) RemoteBox(name string) imap.MailboxID {
	if strings.EqualFold(name, "INBOX") {
		return w.U.Inbox.ID
	}

	if mb := w.U.Conn.MailboxByName(name, w.Bed.Delim()); mb != nil {
		return mb.ID
	}

	return ""
}

// RemoteMessages lists the remote ids of all messages the connector knows, sorted.
func (w *World) RemoteMessages() []imap.MessageID {
	var ids []imap.MessageID

	w.U.Conn.Lock(func() {
		for id := range w.U.Conn.Messages {
			ids = append(ids, id)
		}
	})

	sort.Slice(ids, func(i, j int) bool {
		if len(ids[i]) != len(ids[j]) {
			return len(ids[i]) < len(ids[j])
		}

		return ids[i] < ids[j]
	})

	return ids
}

func (w *World) deliver(u imap.Update) vconn.Delivery {
	d := w.Bed.DeliverNow(w.U, u)[0]
	if d.Err == vconn.ErrNotAcked {
		panic("VERIF-INCONCLUSIVE: connector update not acknowledged within the watchdog: " + d.Update)
	}

	return d
}

// ConnCreate delivers a MessagesCreated for a new message in the given mailbox.
func (w *World) ConnCreate(t *rapid.T, box string) (vconn.Delivery, string) {
	marker := w.NewMarker()
	flags := imap.NewFlagSetFromSlice(DrawFlags(t, "cflag", []string{`\Seen`, `\Flagged`}, 0))
	m, mc, err := w.U.Conn.NewRemoteMessage(Msg(marker, "remote"), flags, time.Date(2020, 1, 2, 3, 4, 5, 0, time.UTC), w.RemoteBox(box))

	if err != nil {
		t.Fatalf("harness: %v", err)
	}

	w.Remote[marker] = m.ID
	w.Label("conn:create")

	return w.deliver(imap.NewMessagesCreated(false, mc)), marker
}

// ConnFlags delivers a MessageFlagsUpdated for a drawn known message.
func (w *World) ConnFlags(t *rapid.T) vconn.Delivery {
	ids := w.RemoteMessages()
	if len(ids) == 0 {
		t.Skip("no remote message")
	}

	id := pick(t, "rmsg", ids)
	flags := imap.NewFlagSetFromSlice(DrawFlags(t, "cflag", []string{`\Seen`, `\Flagged`, `\Answered`}, 0))

	w.U.Conn.Lock(func() { w.U.Conn.Messages[id].Flags = flags.Clone() })
	w.Label("conn:flags")

	return w.deliver(imap.NewMessageFlagsUpdated(id, flags))
}

// ConnBoxes delivers a MessageMailboxesUpdated (label change) for a drawn known message.
func (w *World) ConnBoxes(t *rapid.T) vconn.Delivery {
	ids := w.RemoteMessages()
	if len(ids) == 0 {
		t.Skip("no remote message")
	}

	id := pick(t, "rmsg", ids)

	var (
		boxes []imap.MailboxID
		flags imap.FlagSet
	)

	for _, b := range w.Boxes {
		if rapid.Bool().Draw(t, "in:"+b) {
			if rid := w.RemoteBox(b); rid != "" {
				boxes = append(boxes, rid)
			}
		}
	}

	w.U.Conn.Lock(func() {
		m := w.U.Conn.Messages[id]
		m.Boxes = map[imap.MailboxID]bool{}

		for _, b := range boxes {
			m.Boxes[b] = true
		}

		flags = vconn.RemoteFlags(m.Flags)
	})
	w.Label("conn:boxes")

	return w.deliver(imap.NewMessageMailboxesUpdated(id, boxes, flags))
}

// ConnDelete delivers a MessageDeleted for a drawn known message.
func (w *World) ConnDelete(t *rapid.T) vconn.Delivery {
	ids := w.RemoteMessages()
	if len(ids) == 0 {
		t.Skip("no remote message")
	}

	id := pick(t, "rmsg", ids)

	w.U.Conn.Lock(func() { delete(w.U.Conn.Messages, id) })
	w.Label("conn:delete")

	return w.deliver(imap.NewMessagesDeleted(id))
}

// ConnCreateDelete delivers a MessagesCreated for a new message and removes it again at once (MessageDeleted, or a
// label change to no mailbox): sessions with that mailbox selected get an addition and its removal back to back.
func (w *World) ConnCreateDelete(t *rapid.T, box string) (vconn.Delivery, vconn.Delivery, string) {
	d1, marker := w.ConnCreate(t, box)
	id := w.Remote[marker]

	w.Label("conn:create+delete")

	if rapid.Bool().Draw(t, "byLabels") {
		w.U.Conn.Lock(func() {
			if m := w.U.Conn.Messages[id]; m != nil {
				m.Boxes = map[imap.MailboxID]bool{}
			}
		})

		return d1, w.deliver(imap.NewMessageMailboxesUpdated(id, nil, imap.NewFlagSet())), marker
	}

	w.U.Conn.Lock(func() { delete(w.U.Conn.Messages, id) })
	delete(w.Remote, marker)

	return d1, w.deliver(imap.NewMessagesDeleted(id)), marker
}

// Fresh returns the authoritative content of a mailbox (markers resolved) or ok=false.
type FreshMsg struct {
	bed.FreshMsg
	Marker string
}

func (w *World) Fresh(box string, withBody bool) ([]FreshMsg, uint32, uint32, bool, error) {
	msgs, uv, un, ok, err := w.Bed.FreshView(w.U, box, withBody)
	if err != nil || !ok {
		return nil, uv, un, ok, err
	}

	res := make([]FreshMsg, len(msgs))
	for i, m := range msgs {
		res[i] = FreshMsg{FreshMsg: m, Marker: MarkerOf(m.Body)}
	}

	return res, uv, un, true, nil
}

// View probes the session without judging it (the Mirror is still maintained) and returns what the server answered.
func (w *World) View(s *Sess) ([]bed.PMsg, error) {
	var seen []bed.PMsg

	_, err := s.Probe(func(msgs []bed.PMsg) error { seen = msgs; return nil })

	return seen, err
}

// QuiescentDiff compares a session's view with the authoritative content of its mailbox (C02's oracle): same UIDs in
// the same order with the same flags ignoring \Recent. The caller must have brought the world to quiescence
// (ReleaseAll) and let the session flush (NOOP). It returns "" when they agree.
func (w *World) QuiescentDiff(s *Sess) (string, error) {
	view, err := w.View(s)
	if err != nil {
		return "", err
	}

	fresh, _, _, ok, err := w.Fresh(s.Selected, false)
	if err != nil {
		return "", err
	}

	if !ok {
		return fmt.Sprintf("mailbox %s cannot be examined by a new session", s.Selected), nil
	}

	if len(view) != len(fresh) {
		return fmt.Sprintf("session %s sees %d messages %v, a new session sees %d %v", s.Name, len(view), uidsOf(view), len(fresh), freshUIDs(fresh)), nil
	}

	for i := range view {
		if view[i].UID != fresh[i].UID {
			return fmt.Sprintf("position %d: session %s has UID %d, a new session has UID %d (view %v, fresh %v)", i+1, s.Name, view[i].UID, fresh[i].UID, uidsOf(view), freshUIDs(fresh)), nil
		}

		if vf := imapc.WithoutFlag(view[i].Flags, `\recent`); !imapc.SameFlags(vf, fresh[i].Flags) {
			return fmt.Sprintf("UID %d: session %s has flags %v, a new session has %v", view[i].UID, s.Name, vf, fresh[i].Flags), nil
		}
	}

	return "", nil
}

// QuiescentUIDDiff is QuiescentDiff restricted to membership and order (UIDs), ignoring flags.
func (w *World) QuiescentUIDDiff(s *Sess) (string, error) {
	view, err := w.View(s)
	if err != nil {
		return "", err
	}

	fresh, _, _, ok, err := w.Fresh(s.Selected, false)
	if err != nil {
		return "", err
	}

	if !ok {
		return fmt.Sprintf("mailbox %s cannot be examined by a new session", s.Selected), nil
	}

	a, b := uidsOf(view), freshUIDs(fresh)
	if fmt.Sprint(a) != fmt.Sprint(b) {
		return fmt.Sprintf("session %s sees UIDs %v, a new session sees %v", s.Name, a, b), nil
	}

	return "", nil
}

func uidsOf(v []bed.PMsg) []uint32 {
	r := make([]uint32, len(v))
	for i, m := range v {
		r[i] = m.UID
	}

	return r
}

func freshUIDs(v []FreshMsg) []uint32 {
	r := make([]uint32, len(v))
	for i, m := range v {
		r[i] = m.UID
	}

	return r
}

// SelectAll lets every session select a drawn mailbox (read-only with probability 1/roOneIn, never if 0).
func (w *World) SelectAll(t *rapid.T, rec *Rec, roOneIn int) {
	for _, s := range w.S {
		box := w.PickBox(t)
		ro := roOneIn > 0 && rapid.IntRange(1, roOneIn).Draw(t, "ro") == 1

		w.SteerSelect(s)

		if r := s.Select(box, ro); !r.OK() {
			t.Fatalf("select: %v", r)
		}

		rec.Op("%s select %s ro=%v", s.Name, box, ro)
	}
}
