package mime

import (
	"bytes"
	"fmt"
	"testing"

	"pgregory.net/rapid"
)

// refSplit is a strict RFC 2046 splitter used to validate the generator against itself: it returns the byte ranges
// of the body parts of a multipart body.
func refSplit(body []byte, boundary string) (parts [][2]int, closed bool) {
	delim := []byte("--" + boundary)
	pos, partStart := 0, -1

	for pos <= len(body) {
		// pos is at the start of a line
		eol := bytes.Index(body[pos:], []byte("\r\n"))
		lineEnd, next := len(body), len(body)+1

		if eol >= 0 {
			lineEnd, next = pos+eol, pos+eol+2
		}

		line := bytes.TrimRight(body[pos:lineEnd], " \t")
		isOpen := bytes.Equal(line, delim)
		isClose := bytes.Equal(line, append(append([]byte{}, delim...), '-', '-'))

		if isOpen || isClose {
			if partStart >= 0 {
				end := pos - 2 // the CRLF before the delimiter belongs to it
				if end < partStart {
					end = partStart
				}

				parts = append(parts, [2]int{partStart, end})
			}

			if isClose {
				return parts, true
			}

			partStart = next
			if partStart > len(body) {
				partStart = len(body)
			}
		}

		pos = next
	}

	return parts, false
}

func TestGeneratorSelfConsistent(t *testing.T) {
	rapid.Check(t, func(t *rapid.T) {
		tree := Draw(t, Config{MaxBody: 4096})

		if bytes.Contains(bytes.ReplaceAll(tree.Bytes, []byte("\r\n"), nil), []byte("\n")) ||
			bytes.Contains(bytes.ReplaceAll(tree.Bytes, []byte("\r\n"), nil), []byte("\r")) {
			t.Fatalf("bare CR or LF in well-formed mode:\n%q", tree.Bytes)
		}

		if !bytes.Equal(tree.Bytes, tree.Root.Bytes) || tree.Root.Start != 0 || tree.Root.End != len(tree.Bytes) {
			t.Fatalf("root does not span the message")
		}

		if tree.Root.Get("from") == nil || tree.Root.Get("date") == nil {
			t.Fatalf("root without From/Date")
		}

		for _, n := range tree.Nodes {
			if !bytes.Equal(n.Bytes, append(append([]byte{}, n.Header...), n.Body...)) {
				t.Fatalf("bytes != header+body")
			}

			var hdr []byte
			for _, f := range n.Fields {
				hdr = append(hdr, f.Raw...)
			}

			if n.HeaderTerminated {
				hdr = append(hdr, '\r', '\n')
			}

			if !bytes.Equal(hdr, n.Header) {
				t.Fatalf("header bytes differ from fields")
			}

			if n.Level > 6 {
				t.Fatalf("level %d", n.Level)
			}

			switch n.Kind {
			case Multipart:
				parts, closed := refSplit(n.Body, n.Boundary)
				if !closed || len(parts) != len(n.Children) {
					t.Fatalf("reference split of %s: %d parts closed=%v, want %d\n%q", PathString(n.Path), len(parts), closed, len(n.Children), n.Body)
				}

				for i, c := range n.Children {
					if parts[i][0]+n.BodyStart != c.Start || parts[i][1]+n.BodyStart != c.End {
						t.Fatalf("child %d of %s at [%d,%d) but reference split says [%d,%d)\n%q", i, PathString(n.Path), c.Start, c.End,
							parts[i][0]+n.BodyStart, parts[i][1]+n.BodyStart, n.Body)
					}
				}

				for _, d := range n.Delims {
					if !bytes.Contains(tree.Bytes[d[0]:d[1]], []byte("--"+n.Boundary)) {
						t.Fatalf("delimiter range without delimiter")
					}
				}
			case Message:
				if n.Embedded.Start != n.BodyStart || n.Embedded.End != n.End || !n.Embedded.IsMessage {
					t.Fatalf("embedded message does not span the body")
				}
			}
		}

		seen := map[string]bool{}

		for _, pn := range tree.Paths() {
			k := PathString(pn.Path)
			if seen[k] {
				t.Fatalf("path %s listed twice", k)
			}

			seen[k] = true

			if got := tree.Root.Section(pn.Path); got != pn.Node {
				t.Fatalf("Section(%s) mismatch", k)
			}

			if PathString(pn.Node.Path) != k {
				t.Fatalf("node.Path %s but listed under %s", PathString(pn.Node.Path), k)
			}

			if tree.Root.Section(append(append([]int{}, pn.Path...), 99)) != nil {
				t.Fatalf("Section(%s.99) exists", k)
			}
		}
	})
}

func TestExpand(t *testing.T) {
	for _, size := range []int{0, 1, 77, 78, 79, 1000, 65536} {
		for c := 0; c < 3; c++ {
			a, b := Expand(size, 42, c), Expand(size, 42, c)
			if len(a) != size || !bytes.Equal(a, b) {
				t.Fatalf("size %d compress %d: len %d", size, c, len(a))
			}

			if size > 0 && a[len(a)-1] == '\r' {
				t.Fatalf("ends in CR")
			}
		}
	}

	if bytes.Equal(Expand(500, 1, 0), Expand(500, 2, 0)) {
		t.Fatal("seed ignored")
	}
}

func TestDeepBuilders(t *testing.T) {
	for _, b := range [][]byte{DeepMultipart(3, false, true, false), DeepMessage(3, true), DeepMixed(4), DeepComment(5, true, "To", 1)} {
		if len(b) == 0 {
			t.Fatal("empty")
		}
	}

	if got := DeepCommentValue(2, true, 0); got != "(()) u@d.e" {
		t.Fatal(got)
	}

	_ = fmt.Sprint
}
