// Package mime is the shared MIME-tree generator of the gluon checks (C12 structure, C13 FETCH, ...).
//
// # What it produces
//
// Draw(t, cfg) / Gen(cfg) return a *Tree: one RFC 5322 message, always with CRLF line endings ("well-formed mode"),
// built from a drawn tree of MIME entities of depth <= cfg.MaxDepth (<= 6):
//
//   - multipart/* (mixed, alternative, related, digest, parallel, report, signed, x-...) with optional preamble and
//     epilogue, quoted / unquoted boundary parameters, boundaries that are prefixes of each other, and bodies that
//     contain boundary-LIKE lines which are not delimiters ("--B" + "x", " --B", "x--B", "---B", "--B--x", other case);
//   - leaves: text/*, application/*, image/*, message/delivery-status ..., with or without a Content-Type field;
//   - message/rfc822 entities whose body is a complete embedded message (own header, own body tree);
//   - header fields with folding, (nested) comments, encoded-words, address lists and groups, repeated fields,
//     fields differing only in case, empty values, 8-bit bytes (UTF-8 and Latin-1).
//
// Root messages always carry one From: mailbox and a valid Date: (APPEND validates them; a Sender, when drawn, is a
// single mailbox different in spelling from From). Everything else (To, Cc, Bcc, Reply-To, Sender, Subject,
// Message-Id, In-Reply-To, References, Received, MIME-Version, X-*) is drawn.
//
// Every random choice is a rapid draw; large bodies are constructed by Expand(size, seed, compress) (fixed
// xorshift64* expander, no math/rand), so a Tree is a pure function of the draws.
//
// # What a Tree knows
//
//	tree.Bytes                the serialised message (== tree.Root.Bytes)
//	tree.Root                 the top-level message node
//	tree.Nodes                all nodes in depth-first order (embedded messages included)
//	tree.Levels               number of MIME levels (1 = single-part message)
//	tree.Labels               feature labels of this tree (for class histograms)
//	tree.Paths()              every valid IMAP part path, with the node it addresses
//
// Every *Node knows (all byte slices alias tree.Bytes):
//
//	Kind                      Leaf | Multipart | Message (an entity of type message/rfc822)
//	IsMessage                 the node is a message (the root, or the Embedded message of a Message node)
//	Parent, Children          tree links (Children only for Multipart); Embedded for Message
//	Fields                    header fields in order: Name, Raw bytes (with folding and CRLF), Value (unfolded, trimmed)
//	Bytes, Header, Body       whole entity, header incl. the blank line, body
//	Start, BodyStart, End     offsets of the above in tree.Bytes
//	Type, Subtype, Params     expected content type (lower-cased; text/plain when the field is absent),
//	                          parameters as (lower-cased key, unquoted value) in header order
//	Disposition, DispParams   expected content disposition (lower-cased type, parameters)
//	Size, Lines               RFC 3501 body-fld-octets (len(Body)) and body-fld-lines (number of LF, +1 for a trailing
//	                          partial line; meaningful for text/* and message/rfc822)
//	Path                      IMAP part number of the entity (1.2.3); see below
//	Env                       expected envelope values (IsMessage nodes)
//	Boundary, Delims          multipart: the boundary and the byte ranges of its delimiter lines
//
// # IMAP part numbers
//
// node.Path follows RFC 3501 6.4.5: the parts of a multipart message are 1..n, nested p.1..p.n; a non-multipart
// message has the single part 1; the parts of the message embedded in a message/rfc822 part p are p.1..p.n when it is
// a multipart and p.1 otherwise. The root multipart has the empty path. An embedded multipart message shares the
// path of its message/rfc822 container (it has no number of its own).
//
//	n.Section(path)           resolve a path relative to n: the entity whose Body is BODY[path] (nil if out of tree)
//	n.Get("content-type")     first field of that name, case-insensitively (nil if absent)
//	n.Walk(fn)                depth first over n and everything below it
//	n.MessageOf()             for a Message node: the embedded message whose Header/Body are BODY[p.HEADER]/[p.TEXT]
//
// # Mutations and deep inputs (C12 hostile classes)
//
// Mutate(t, tree) returns mutated bytes + a label (delete a closing boundary, duplicate a part, cut anywhere, splice
// header bytes into a body, LF / CR / CRLF mixes, transport padding, ...). DeepMultipart / DeepMessage /
// DeepComment build nesting of any depth from a few parameters.
package mime

import (
	"bytes"
	"strconv"
	"strings"
)

// Kind of an entity.
type Kind uint8

const (
	Leaf      Kind = iota // anything that is neither multipart/* nor message/rfc822
	Multipart             // multipart/*
	Message               // message/rfc822: Embedded is the encapsulated message
)

func (k Kind) String() string {
	switch k {
	case Multipart:
		return "multipart"
	case Message:
		return "message"
	default:
		return "leaf"
	}
}

// Field is one header field.
type Field struct {
	Name  string // as written (case preserved)
	Raw   []byte // the complete field: name, colon, (folded) value, final CRLF
	Value string // RFC 5322 unfolded value (CRLF before WSP removed), outer white space trimmed
}

// Param is one content-type / disposition parameter as a client must see it.
type Param struct {
	Key   string // lower-cased
	Value string // unquoted
}

// Addr is one expected envelope address.
type Addr struct {
	Name        string // display name as the header spells it after unquoting; "" if none
	NameEncoded bool   // the display name contains an RFC 2047 encoded-word (Name holds the decoded text)
	User        string // local part (unquoted)
	Domain      string
	Group       string // name of the enclosing group ("" if none)
}

// AddrList is the expected content of one address header.
type AddrList struct {
	Addrs  []Addr
	Groups int // number of group constructs (members are flattened into Addrs)
}

// Envelope holds the expected envelope fields of a message; nil pointer = header absent.
type Envelope struct {
	Date, Subject, InReplyTo, MessageID *string
	From, Sender, ReplyTo, To, Cc, Bcc  *AddrList
}

// Node is one MIME entity (or message).
type Node struct {
	Kind      Kind
	IsMessage bool
	Parent    *Node
	Children  []*Node
	Embedded  *Node
	Level     int // 1 = root

	Fields           []*Field
	HeaderTerminated bool // the header ends with the blank line (false only for body-less entities)

	HasContentType bool
	Type, Subtype  string
	Params         []Param
	Disposition    string  // expected disposition type (lower-cased), "" when there is no Content-Disposition
	DispParams     []Param // expected disposition parameters
	Boundary       string
	Preamble       []byte   // nil = no preamble (first delimiter starts the body)
	DelimPad       []string // transport padding written behind each delimiter line (len(Children)+1 entries, normally all "")
	Epilogue       []byte   // nil = nothing after the close delimiter (not even CRLF)
	NoClose        bool     // no close delimiter at all (Config.UnclosedNested): the enclosing multipart's next delimiter ends it
	Delims         [][2]int // multipart: [start,end) of each delimiter line in tree.Bytes incl. the CRLF that precedes it (when there is one) and the CRLF that ends it (when there is one); last = close delimiter

	Bytes, Header, Body   []byte
	Start, BodyStart, End int
	Size, Lines           int

	Path []int
	Env  *Envelope

	leafBody []byte // drawn body of a leaf (before layout)
}

// Tree is one generated message.
type Tree struct {
	Root   *Node
	Bytes  []byte
	Nodes  []*Node
	Levels int
	Labels []string
}

// PathString renders a part path as 1.2.3 ("" for the root).
func PathString(p []int) string {
	var sb strings.Builder

	for i, v := range p {
		if i > 0 {
			sb.WriteByte('.')
		}

		sb.WriteString(strconv.Itoa(v))
	}

	return sb.String()
}

// Get returns the first field with that name (case-insensitive) or nil.
func (n *Node) Get(name string) *Field {
	for _, f := range n.Fields {
		if strings.EqualFold(f.Name, name) {
			return f
		}
	}

	return nil
}

// GetValue returns the unfolded value of the first field with that name and whether it exists.
func (n *Node) GetValue(name string) (string, bool) {
	if f := n.Get(name); f != nil {
		return f.Value, true
	}

	return "", false
}

// Param returns the expected value of a content-type parameter.
func (n *Node) Param(key string) (string, bool) {
	for _, p := range n.Params {
		if p.Key == strings.ToLower(key) {
			return p.Value, true
		}
	}

	return "", false
}

// Walk visits n and everything below it depth first (a Message node is followed by its embedded message).
func (n *Node) Walk(fn func(*Node)) {
	fn(n)

	for _, c := range n.Children {
		c.Walk(fn)
	}

	if n.Embedded != nil {
		n.Embedded.Walk(fn)
	}
}

// MessageOf returns the message whose header/body BODY[p.HEADER]/BODY[p.TEXT] address: n itself for a message node,
// the embedded message for a message/rfc822 entity, nil otherwise.
func (n *Node) MessageOf() *Node {
	switch {
	case n.Kind == Message:
		return n.Embedded
	case n.IsMessage:
		return n
	default:
		return nil
	}
}

// Section resolves an IMAP part path relative to n (n is normally a message: tree.Root). It returns the entity
// whose Body is BODY[path]; the empty path returns n. nil means "no such part".
func (n *Node) Section(path []int) *Node {
	cur, asMessage := n, n.IsMessage

	for _, i := range path {
		if i <= 0 || cur == nil {
			return nil
		}

		if !asMessage && cur.Kind == Message {
			cur, asMessage = cur.Embedded, true
		}

		switch {
		case cur.Kind == Multipart:
			if i > len(cur.Children) {
				return nil
			}

			cur, asMessage = cur.Children[i-1], false
		case asMessage:
			// a non-multipart message has exactly the part 1: itself, seen as an entity
			if i != 1 {
				return nil
			}

			asMessage = false
		default:
			return nil // a leaf has no sub-parts
		}
	}

	return cur
}

// PathNode is one valid part path together with the node it addresses.
type PathNode struct {
	Path []int
	Node *Node
}

// Paths lists every valid part path of the tree (the empty path, i.e. the whole message, excluded).
func (t *Tree) Paths() []PathNode {
	var out []PathNode

	var rec func(n *Node, asMessage bool, prefix []int)

	rec = func(n *Node, asMessage bool, prefix []int) {
		if !asMessage && n.Kind == Message {
			n, asMessage = n.Embedded, true
		}

		switch {
		case n.Kind == Multipart:
			for i, c := range n.Children {
				p := append(append([]int{}, prefix...), i+1)
				out = append(out, PathNode{p, c})
				rec(c, false, p)
			}
		case asMessage:
			p := append(append([]int{}, prefix...), 1)
			out = append(out, PathNode{p, n})
			rec(n, false, p)
		}
	}

	rec(t.Root, true, nil)

	return out
}

// CountLines is the RFC 3501 line count used for expectations: number of LF plus one for a trailing partial line.
func CountLines(b []byte) int {
	n := bytes.Count(b, []byte{'\n'})
	if len(b) > 0 && b[len(b)-1] != '\n' {
		n++
	}

	return n
}

// ---- serialisation ---------------------------------------------------------------------------------------------

type layout struct {
	buf   bytes.Buffer
	nodes []*Node
}

func (l *layout) emit(n *Node) {
	l.nodes = append(l.nodes, n)
	n.Start = l.buf.Len()

	for _, f := range n.Fields {
		l.buf.Write(f.Raw)
	}

	if n.HeaderTerminated {
		l.buf.WriteString("\r\n")
	}

	n.BodyStart = l.buf.Len()

	switch n.Kind {
	case Leaf:
		l.buf.Write(n.leafBody)
	case Message:
		l.emit(n.Embedded)
	case Multipart:
		n.Delims = n.Delims[:0]

		if n.Preamble != nil {
			l.buf.Write(n.Preamble)
		}

		for i, c := range n.Children {
			ds := l.buf.Len()

			if i > 0 || n.Preamble != nil {
				l.buf.WriteString("\r\n")
			}

			l.buf.WriteString("--" + n.Boundary + n.pad(i) + "\r\n")
			n.Delims = append(n.Delims, [2]int{ds, l.buf.Len()})
			l.emit(c)
		}

		if n.NoClose {
			break
		}

		ds := l.buf.Len()

		l.buf.WriteString("\r\n--" + n.Boundary + "--" + n.pad(len(n.Children)))

		if n.Epilogue != nil {
			l.buf.WriteString("\r\n")
		}

		n.Delims = append(n.Delims, [2]int{ds, l.buf.Len()})

		if n.Epilogue != nil {
			l.buf.Write(n.Epilogue)
		}
	}

	n.End = l.buf.Len()
}

func (n *Node) pad(i int) string {
	if i < len(n.DelimPad) {
		return n.DelimPad[i]
	}

	return ""
}

// finish turns the drawn root into a Tree: serialises, assigns offsets, slices, sizes, paths.
func finish(root *Node, labels map[string]bool) *Tree {
	l := &layout{}
	l.emit(root)

	t := &Tree{Root: root, Bytes: l.buf.Bytes(), Nodes: l.nodes}

	for _, n := range t.Nodes {
		n.Bytes = t.Bytes[n.Start:n.End:n.End]
		n.Header = t.Bytes[n.Start:n.BodyStart:n.BodyStart]
		n.Body = t.Bytes[n.BodyStart:n.End:n.End]
		n.Size = len(n.Body)
		n.Lines = CountLines(n.Body)

		if n.Level > t.Levels {
			t.Levels = n.Level
		}
	}

	assignPaths(root, true, nil)

	for k := range labels {
		t.Labels = append(t.Labels, k)
	}

	sortStrings(t.Labels)

	return t
}

func assignPaths(n *Node, asMessage bool, prefix []int) {
	switch {
	case n.Kind == Multipart:
		n.Path = append([]int{}, prefix...)

		for i, c := range n.Children {
			assignPaths(c, false, append(append([]int{}, prefix...), i+1))
		}
	case asMessage:
		// non-multipart message: the message is its own part 1
		n.Path = append(append([]int{}, prefix...), 1)

		if n.Kind == Message {
			assignPaths(n.Embedded, true, n.Path)
		}
	default:
		n.Path = append([]int{}, prefix...)

		if n.Kind == Message {
			assignPaths(n.Embedded, true, n.Path)
		}
	}
}

func sortStrings(s []string) {
	for i := 1; i < len(s); i++ {
		for j := i; j > 0 && s[j] < s[j-1]; j-- {
			s[j], s[j-1] = s[j-1], s[j]
		}
	}
}

// IsDelimiterLine tells whether line (without its line ending) is a delimiter or close-delimiter line of one of the
// boundaries, allowing RFC 2046 transport padding (trailing white space).
func IsDelimiterLine(line []byte, boundaries []string) bool {
	if len(line) < 2 || line[0] != '-' || line[1] != '-' {
		return false
	}

	s := strings.TrimRight(string(line[2:]), " \t")

	for _, b := range boundaries {
		if s == b || s == b+"--" {
			return true
		}
	}

	return false
}
