package mime

// Fixed expander for large payloads: a body of exactly `size` bytes is a pure function of (size, seed, compress).

type xorshift uint64

func newXorshift(seed uint64) *xorshift {
	x := xorshift(seed*0x9E3779B97F4A7C15 + 0xD1B54A32D192ED03)
	if x == 0 {
		x = 0x2545F4914F6CDD1D
	}

	return &x
}

func (x *xorshift) next() uint64 {
	v := uint64(*x)
	v ^= v >> 12
	v ^= v << 25
	v ^= v >> 27
	*x = xorshift(v)

	return v * 2685821657736338717
}

const b64Alphabet = "ABCDEFGHIJKLMNOPQRSTUVWXYZabcdefghijklmnopqrstuvwxyz0123456789+/"

// Compressibility classes of Expand.
const (
	Incompressible = 0 // every byte drawn from the base64 alphabet by the expander (LZ4 finds nothing)
	Compressible   = 1 // one 76-byte line repeated
	MixedRuns      = 2 // alternating runs of random lines and of one repeated line
)

// Expand returns exactly size bytes of CRLF-terminated 76-column lines over the base64 alphabet (so that no line
// can be a MIME delimiter). The last line may be partial; the result never ends in a bare CR.
func Expand(size int, seed uint64, compress int) []byte {
	if size <= 0 {
		return []byte{}
	}

	x := newXorshift(seed)
	out := make([]byte, 0, size+80)

	var fixed [76]byte

	for i := range fixed {
		fixed[i] = b64Alphabet[x.next()&63]
	}

	randomLine := func() {
		for i := 0; i < 76; i += 8 {
			v := x.next()
			for j := 0; j < 8 && i+j < 76; j++ {
				out = append(out, b64Alphabet[v&63])
				v >>= 6
			}
		}
	}

	runLeft, runRandom := 0, true

	for len(out) < size {
		switch compress {
		case Compressible:
			out = append(out, fixed[:]...)
		case MixedRuns:
			if runLeft == 0 {
				runLeft = int(x.next()%64) + 1
				runRandom = !runRandom
			}

			runLeft--

			if runRandom {
				randomLine()
			} else {
				out = append(out, fixed[:]...)
			}
		default:
			randomLine()
		}

		out = append(out, '\r', '\n')
	}

	out = out[:size]
	if out[size-1] == '\r' {
		out[size-1] = '='
	}

	return out
}
