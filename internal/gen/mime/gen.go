package mime

import (
	"encoding/base64"
	"fmt"
	"strings"

	"pgregory.net/rapid"
)

// Config bounds the generator. The zero value gives the defaults.
type Config struct {
	MaxDepth int // MIME levels, 1..6 (default 6)
	MaxParts int // children per multipart (default 4)
	MaxNodes int // entity budget of one tree (default 20)
	MaxBody  int // largest leaf body in bytes (default 2048); bodies above 1.5 KiB are built by Expand
	LargePct int // percentage of leaves that take a large size class (default 4)

	// UnclosedNested: a multipart that is a part of another multipart sometimes has no close delimiter of its own (it
	// is ended by the next delimiter of the enclosing multipart, as truncating gateways produce them): its last part
	// ends where the multipart ends.
	UnclosedNested bool

	// Steering switches for listed known findings of gluon (see /verif/known_findings.json); false = full domain.
	// A tree on which a switch changed something carries the label "steered:<feature>".
	NoDelimiterPadding    bool // never write RFC 2046 transport padding (white space) behind a delimiter line
	NoContentTypeComments bool // never write an RFC 2045 comment inside a Content-Type value
	SimpleGroups          bool // inside groups: no white space after the comma between members, no member that starts with a quoted string or a comment
}

func (c Config) norm() Config {
	if c.MaxDepth <= 0 || c.MaxDepth > 6 {
		c.MaxDepth = 6
	}

	if c.MaxParts <= 0 {
		c.MaxParts = 4
	}

	if c.MaxNodes <= 0 {
		c.MaxNodes = 20
	}

	if c.MaxBody <= 0 {
		c.MaxBody = 2048
	}

	if c.LargePct <= 0 {
		c.LargePct = 4
	}

	return c
}

// Gen is the rapid generator of well-formed trees.
func Gen(cfg Config) *rapid.Generator[*Tree] {
	return rapid.Custom(func(t *rapid.T) *Tree { return Draw(t, cfg) })
}

// Draw draws one well-formed tree.
func Draw(t *rapid.T, cfg Config) *Tree {
	g := &gen{t: t, cfg: cfg.norm(), labels: map[string]bool{}}

	// Trees with unclosed nested multiparts (Config.UnclosedNested, one tree in five) are otherwise plain about their
	// delimiters: no boundary that is a prefix of another one and no boundary-like text lines. What such lines mean
	// when the close delimiter they resemble is missing is not defined by anything; gluon's reading of them differs
	// from its reading of the closed form, which is not held against it.
	if g.cfg.UnclosedNested && rapid.IntRange(0, 4).Draw(t, "unclosedTree") == 0 {
		g.plainDelims = true
	}

	root := g.entity(1, true, nil, nil, false)

	return finish(root, g.labels)
}

type gen struct {
	t           *rapid.T
	cfg         Config
	nodes       int
	bseq        int
	labels      map[string]bool
	boundaries  []string
	plainDelims bool // this tree may contain unclosed nested multiparts (see Draw)
}

func (g *gen) intn(lo, hi int, label string) int {
	if hi <= lo {
		return lo
	}

	return rapid.IntRange(lo, hi).Draw(g.t, label)
}

// pct is true with probability of about p/100 and shrinks towards false. rapid's integer generators are biased
// towards small values (and a little towards the maximum), so the threshold is taken from the tail distribution of
// IntRange(0, 99) instead of assuming uniformity.
func (g *gen) pct(p int, label string) bool { return g.intn(0, 99, label) >= pctThreshold[clampPct(p)] }

func clampPct(p int) int {
	if p < 0 {
		return 0
	}

	if p > 100 {
		return 100
	}

	return p
}

// pctThreshold[p] = smallest k with P(IntRange(0,99) >= k) <= p/100 under rapid v1.3.0's bias
// (bit length n = Geom(1/9)+1; n < 7: n uniform bits; 7 <= n < 32: uniform 0..99; n >= 32: the maximum).
var pctThreshold = func() [101]int {
	var pn [40]float64 // pn[i] = P(n = i), pn[32] = P(n >= 32)

	q := 1.0

	for i := 1; i < 32; i++ {
		pn[i] = q / 9
		q *= 8.0 / 9
	}

	pn[32] = q

	tail := func(k int) float64 {
		if k > 99 {
			return 0
		}

		var t float64

		for i := 1; i <= 6; i++ {
			if w := 1 << i; w > k {
				t += pn[i] * float64(w-k) / float64(w)
			}
		}

		for i := 7; i < 32; i++ {
			t += pn[i] * float64(100-k) / 100
		}

		return t + pn[32]
	}

	var thr [101]int

	for p := 0; p <= 100; p++ {
		k := 0
		for k <= 99 && tail(k) > float64(p)/100+1e-9 {
			k++
		}

		thr[p] = k
	}

	thr[0] = 100

	return thr
}()

func (g *gen) pick(label string, xs ...string) string { return xs[g.intn(0, len(xs)-1, label)] }

func (g *gen) label(s string) { g.labels[s] = true }

// steer is called when a feature belonging to a listed known finding was drawn: it returns true when the feature may
// be used; otherwise it records the label "steered:<feature>" (the caller falls back to the plain form), so that
// checks can count the case as excluded.
func (g *gen) steer(avoid bool, feature string) bool {
	if avoid {
		g.label("steered:" + feature)
		return false
	}

	return true
}

var (
	vocab = []string{"hello", "world", "report", "meeting", "invoice", "the", "quick", "brown", "fox", "2021", "Q3",
		"status", "update", "please", "find", "attached", "regards", "a", "I", "x1", "re", "fwd", "budget", "notes"}
	vocab8 = []string{"Gr\u00fc\u00dfe", "caf\u00e9", "\u65e5\u672c\u8a9e", "na\u00efve", "\xe9t\xe9", "M\xfcller", "\xa0\xff"}
	names  = []string{"John", "Doe", "Alice", "Bob", "Mary", "Smith", "Ed", "Jones", "Support", "Team", "Dr", "Jr", "von", "O'Brien", "bot-7"}
	locals = []string{"john", "jdoe", "alice", "bob.smith", "mary+tag", "support", "no-reply", "a", "x_y", "user.name.long", "ed=jones", "first.m.last", "u1"}
	doms   = []string{"example.com", "pm.me", "mail.example.org", "a.test", "one.test", "sub.domain.example.net", "x.io", "EXAMPLE.COM"}
	encTxt = []string{"Keith Moore", "Andr\u00e9", "J\u00fcrgen M\u00fcller", "Olle J\u00e4rnefors", "caf\u00e9 au lait", "a", "Fran\u00e7ois, Jr."}
)

func (g *gen) word(allow8 bool) string {
	if allow8 && g.pct(12, "w8") {
		g.label("hdr-8bit")
		return vocab8[g.intn(0, len(vocab8)-1, "w8i")]
	}

	return vocab[g.intn(0, len(vocab)-1, "w")]
}

// ---- header fields ---------------------------------------------------------------------------------------------

func (g *gen) caseName(name string) string {
	switch g.intn(0, 11, "namecase") {
	case 8:
		g.label("name-lower")
		return strings.ToLower(name)
	case 9:
		g.label("name-upper")
		return strings.ToUpper(name)
	case 10:
		g.label("name-mixed")

		b := []byte(strings.ToLower(name))
		for i := range b {
			if i%2 == 1 && b[i] >= 'a' && b[i] <= 'z' {
				b[i] -= 32
			}
		}

		return string(b)
	default:
		return name
	}
}

// glue at the end of a token makes field() join the next token without any separator.
const glue = "\x00"

// field builds one header field from value tokens. Adjacent tokens are separated by one space, by a fold
// (CRLF + white space) or, when tight, sometimes by nothing. The unfolded value is recorded.
func (g *gen) field(name string, toks []string, tight bool) *Field {
	var raw, val strings.Builder

	raw.WriteString(name)
	raw.WriteByte(':')

	if len(toks) == 0 {
		if g.pct(50, "emptysp") {
			raw.WriteByte(' ')
		}

		raw.WriteString("\r\n")
		g.label("hdr-empty-value")

		return &Field{Name: name, Raw: []byte(raw.String()), Value: ""}
	}

	switch g.intn(0, 11, "aftercolon") {
	case 9:
		g.label("hdr-nospace")
	case 10:
		raw.WriteByte('\t')
	case 11:
		raw.WriteString("\r\n ")
		g.label("hdr-folded")
	default:
		raw.WriteByte(' ')
	}

	foldEvery := 0
	if g.pct(30, "fold") {
		foldEvery = g.intn(1, 4, "foldevery")
		g.label("hdr-folded")
	}

	foldWS := " "
	if foldEvery > 0 {
		foldWS = g.pick("foldws", " ", "\t", "  ", " \t", "        ")
	}

	tightEvery := 0
	if tight && g.pct(30, "tight") {
		tightEvery = g.intn(1, 2, "tightevery")
	}

	glued := false

	for i, tk := range toks {
		if i > 0 {
			switch {
			case glued:
			case foldEvery > 0 && i%foldEvery == 0:
				raw.WriteString("\r\n" + foldWS)
				val.WriteString(foldWS)
			case tightEvery > 0 && i%tightEvery == 0:
			default:
				raw.WriteByte(' ')
				val.WriteByte(' ')
			}
		}

		glued = strings.HasSuffix(tk, glue)
		tk = strings.TrimSuffix(tk, glue)

		raw.WriteString(tk)
		val.WriteString(tk)
	}

	raw.WriteString("\r\n")

	return &Field{Name: name, Raw: []byte(raw.String()), Value: strings.Trim(val.String(), " \t")}
}

func (g *gen) comment(depth int) string {
	var sb strings.Builder

	sb.WriteByte('(')

	n := g.intn(0, 3, "cn")
	for i := 0; i < n; i++ {
		if i > 0 {
			sb.WriteByte(' ')
		}

		switch k := g.intn(0, 9, "ck"); {
		case k == 7 && depth < 3:
			sb.WriteString(g.comment(depth + 1))
			g.label("comment-nested")
		case k == 8:
			sb.WriteString(g.pick("cqp", `\(`, `\)`, `\\`, `\"`))
		case k == 9:
			sb.WriteString(g.pick("cspecial", "<x@y>", "a,b", "c:d;", `"q`, "@"))
		default:
			sb.WriteString(g.word(true))
		}
	}

	sb.WriteByte(')')
	g.label("comment")

	return sb.String()
}

func qEncode(b []byte) string {
	var sb strings.Builder

	for _, c := range b {
		switch {
		case c == ' ':
			sb.WriteByte('_')
		case c >= '0' && c <= '9' || c >= 'a' && c <= 'z' || c >= 'A' && c <= 'Z':
			sb.WriteByte(c)
		default:
			fmt.Fprintf(&sb, "=%02X", c)
		}
	}

	return sb.String()
}

// encodedWord returns an RFC 2047 encoded-word for text and the text.
func (g *gen) encodedWord() (string, string) {
	text := encTxt[g.intn(0, len(encTxt)-1, "enctxt")]
	charset := g.pick("enccs", "utf-8", "UTF-8", "iso-8859-1", "ISO-8859-1")
	raw := []byte(text)

	if strings.HasPrefix(strings.ToLower(charset), "iso") {
		raw = raw[:0:0]
		for _, r := range text {
			raw = append(raw, byte(r))
		}
	}

	g.label("encoded-word")

	switch g.intn(0, 3, "encenc") {
	case 0:
		return "=?" + charset + "?Q?" + qEncode(raw) + "?=", text
	case 1:
		return "=?" + charset + "?q?" + qEncode(raw) + "?=", text
	case 2:
		return "=?" + charset + "?B?" + base64.StdEncoding.EncodeToString(raw) + "?=", text
	default:
		return "=?" + charset + "?b?" + base64.StdEncoding.EncodeToString(raw) + "?=", text
	}
}

func quoteString(s string) string {
	var sb strings.Builder

	sb.WriteByte('"')

	for i := 0; i < len(s); i++ {
		if s[i] == '"' || s[i] == '\\' {
			sb.WriteByte('\\')
		}

		sb.WriteByte(s[i])
	}

	sb.WriteByte('"')

	return sb.String()
}

// mailbox draws one mailbox: its tokens (no trailing separator) and the expected address.
func (g *gen) mailbox() ([]string, Addr) {
	var a Addr

	local := locals[g.intn(0, len(locals)-1, "local")]
	a.User = local

	if g.pct(6, "qlocal") {
		a.User = g.pick("qlocalv", "john doe", "a..b", "x,y", "semi;colon", "(paren)")
		local = quoteString(a.User)
		g.label("addr-quoted-local")
	}

	a.Domain = doms[g.intn(0, len(doms)-1, "dom")]
	dom := a.Domain

	if g.pct(5, "domlit") {
		a.Domain = g.pick("domlitv", "[192.168.0.1]", "[IPv6:2001:db8::1]", "[10.0.0.7]")
		dom = a.Domain
		g.label("addr-domain-literal")
	}

	spec := local + "@" + dom

	var toks []string

	form := g.intn(0, 11, "mbform")
	switch form {
	case 0, 1:
		toks = []string{spec}
	case 2:
		toks = []string{"<" + spec + ">"}
	case 3, 4, 5:
		n := g.intn(1, 3, "nwords")

		var ws []string

		for i := 0; i < n; i++ {
			if g.pct(10, "name8") {
				ws = append(ws, g.pick("name8v", "J\u00f6rg", "M\u00fcller", "\u0141ukasz", "Ren\xe9e"))
				g.label("hdr-8bit")
			} else {
				ws = append(ws, names[g.intn(0, len(names)-1, "name")])
			}
		}

		a.Name = strings.Join(ws, " ")
		toks = append(ws, "<"+spec+">")
	case 6, 7:
		a.Name = g.pick("qname", "Doe, John", "Joe Q. Public", `The "Boss"`, `back\slash`, "Smith; Mary (Sales)", "a@b", "  padded", "x", "Gr\u00fc\u00dfe", "<angle>")
		toks = []string{quoteString(a.Name), "<" + spec + ">"}
		// a quoted string is one token for folding purposes only when it has no inner space runs that a fold
		// would alter; folds happen between tokens only, so the quoted string is kept intact.
		g.label("addr-quoted-name")
	case 8:
		w, text := g.encodedWord()
		a.Name, a.NameEncoded = text, true
		toks = []string{w}

		if g.pct(30, "encmore") {
			if g.pct(50, "encmore2") {
				w2, t2 := g.encodedWord()
				toks = append(toks, w2)
				a.Name += t2 // adjacent encoded-words: the white space between them is not part of the text
			} else {
				w2 := names[g.intn(0, len(names)-1, "name")]
				toks = append(toks, w2)
				a.Name += " " + w2
			}
		}

		toks = append(toks, "<"+spec+">")
	case 9:
		// comments around a name-addr
		w := names[g.intn(0, len(names)-1, "name")]
		a.Name = w

		switch g.intn(0, 2, "cpos") {
		case 0:
			toks = []string{g.comment(0), w, "<" + spec + ">"}
		case 1:
			toks = []string{w, g.comment(0), "<" + spec + ">"}
		default:
			toks = []string{w, "<" + spec + ">", g.comment(0)}
		}
	case 10:
		// addr-spec with a trailing comment (the classic "user@host (Real Name)" form): no display name
		toks = []string{spec, g.comment(0)}
	default:
		toks = []string{g.comment(0), spec}
	}

	return toks, a
}

// addrList draws an address-list of min..max items (mailboxes and, when allowed, groups).
func (g *gen) addrList(min, max int, groups bool) ([]string, *AddrList) {
	al := &AddrList{}

	var toks []string

	n := g.intn(min, max, "naddr")
	for i := 0; i < n; i++ {
		last := i == n-1

		if groups && g.pct(12, "group") {
			g.label("addr-group")

			al.Groups++

			gname := g.pick("gname", "Team", "undisclosed recipients", "A Group", "Friends")
			m := g.intn(0, 3, "gmembers")

			if m == 0 {
				end := ":;"
				if !last {
					end += ","
				}

				ws := strings.Fields(gname)
				ws[len(ws)-1] += end
				toks = append(toks, ws...)
				g.label("addr-group-empty")

				continue
			}

			ws := strings.Fields(gname)
			ws[len(ws)-1] += ":"
			toks = append(toks, ws...)

			g.label("addr-group-members")

			for j := 0; j < m; j++ {
				mt, a := g.mailbox()
				a.Group = gname

				if (strings.HasPrefix(mt[0], `"`) || strings.HasPrefix(mt[0], "(")) && !g.steer(g.cfg.SimpleGroups, "group-member-quoted-or-comment") {
					a = Addr{User: "member", Domain: a.Domain, Group: gname}
					mt = []string{"<member@" + a.Domain + ">"}
				}

				switch {
				case j < m-1 && !g.steer(g.cfg.SimpleGroups, "group-comma-space"):
					mt[len(mt)-1] += "," + glue
				case j < m-1:
					mt[len(mt)-1] += ","
				case last:
					mt[len(mt)-1] += ";"
				default:
					mt[len(mt)-1] += ";,"
				}

				toks = append(toks, mt...)
				al.Addrs = append(al.Addrs, a)
			}

			continue
		}

		mt, a := g.mailbox()
		if !last {
			mt[len(mt)-1] += ","
		}

		toks = append(toks, mt...)
		al.Addrs = append(al.Addrs, a)
	}

	return toks, al
}

var (
	monthNames = []string{"Jan", "Feb", "Mar", "Apr", "May", "Jun", "Jul", "Aug", "Sep", "Oct", "Nov", "Dec"}
	dayNames   = []string{"Sun", "Mon", "Tue", "Wed", "Thu", "Fri", "Sat"}
)

func weekday(y, m, d int) int { // Sakamoto
	t := []int{0, 3, 2, 5, 0, 3, 5, 1, 4, 6, 2, 4}
	if m < 3 {
		y--
	}

	return (y + y/4 - y/100 + y/400 + t[m-1] + d) % 7
}

func (g *gen) date() []string {
	y, m, d := g.intn(1990, 2037, "year"), g.intn(1, 12, "month"), g.intn(1, 28, "day")
	hh, mm, ss := g.intn(0, 23, "hh"), g.intn(0, 59, "mm"), g.intn(0, 59, "ss")

	var toks []string

	if g.pct(75, "dow") {
		toks = append(toks, dayNames[weekday(y, m, d)]+",")
	}

	day := fmt.Sprintf("%d", d)
	if g.pct(50, "day2") {
		day = fmt.Sprintf("%02d", d)
	}

	toks = append(toks, day, monthNames[m-1], fmt.Sprintf("%04d", y), fmt.Sprintf("%02d:%02d:%02d", hh, mm, ss),
		g.pick("zone", "+0000", "-0800", "+0200", "+0530", "-0330", "+1300"))

	if g.pct(20, "zonecomment") {
		toks = append(toks, g.pick("zc", "(UTC)", "(PST)", "(CEST)", "(GMT+2)"))
	}

	return toks
}

func (g *gen) msgID() string {
	return "<" + g.pick("midl", "0f57877e-0003", "X9xiWTZnfxfC0wGLBI9t-WEJ", "20210602141856.12345", "CAF=abc+def", "1") +
		fmt.Sprintf(".%d", g.intn(0, 9999, "midn")) + "@" + doms[g.intn(0, len(doms)-1, "dom")] + ">"
}

func (g *gen) textTokens(min, max int, allow8 bool) []string {
	n := g.intn(min, max, "ntok")
	toks := make([]string, 0, n)

	for i := 0; i < n; i++ {
		switch k := g.intn(0, 19, "tk"); {
		case k == 17:
			w, _ := g.encodedWord()
			toks = append(toks, w)
		case k == 18:
			toks = append(toks, g.pick("tspecial", `"quoted"`, `back\slash`, "(paren)", "semi;colon", "a:b", "100%", "{5}", "NIL", "tab\there", `"`, ")", "("))
			g.label("hdr-specials")
		case k == 19:
			toks = append(toks, g.pick("tpref", "Re:", "Fwd:", "[list]", "AW:"))
		default:
			toks = append(toks, g.word(allow8))
		}
	}

	return toks
}

// messageFields draws the RFC 5322 fields of a message and fills env.
func (g *gen) messageFields(root bool) ([]*Field, *Envelope) {
	env := &Envelope{}

	var fs []*Field

	sp := func(s string) *string { return &s }
	minimal := !root && g.pct(20, "minimalmsg")

	if root || !minimal {
		var toks []string

		var al *AddrList

		if root || g.pct(85, "from1") {
			mt, a := g.mailbox()
			toks, al = mt, &AddrList{Addrs: []Addr{a}}
		} else {
			toks, al = g.addrList(1, 3, false)
		}

		fs = append(fs, g.field(g.caseName("From"), toks, false))
		env.From = al
	}

	if root || (!minimal && g.pct(85, "hasdate")) {
		f := g.field(g.caseName("Date"), g.date(), false)
		fs = append(fs, f)
		env.Date = sp(f.Value)
	}

	if minimal {
		g.label("msg-minimal")

		if g.pct(50, "minsubj") {
			f := g.field("Subject", g.textTokens(1, 3, false), false)
			fs = append(fs, f)
			env.Subject = sp(f.Value)
		}

		return fs, env
	}

	if g.pct(85, "hassubject") {
		var toks []string
		if !g.pct(5, "emptysubject") {
			toks = g.textTokens(1, 8, true)
		}

		f := g.field(g.caseName("Subject"), toks, false)
		fs = append(fs, f)
		env.Subject = sp(f.Value)
	}

	if g.pct(80, "hasto") {
		toks, al := g.addrList(1, 4, true)
		fs = append(fs, g.field(g.caseName("To"), toks, false))
		env.To = al
	}

	if g.pct(30, "hascc") {
		toks, al := g.addrList(1, 3, true)
		fs = append(fs, g.field(g.caseName("Cc"), toks, false))
		env.Cc = al
	}

	if g.pct(10, "hasbcc") {
		toks, al := g.addrList(1, 2, false)
		fs = append(fs, g.field(g.caseName("Bcc"), toks, false))
		env.Bcc = al
	}

	if g.pct(20, "hasreplyto") {
		toks, al := g.addrList(1, 2, false)
		fs = append(fs, g.field(g.caseName("Reply-To"), toks, false))
		env.ReplyTo = al
	}

	if g.pct(15, "hassender") {
		// a single mailbox, spelled differently from every From address (rfcvalidation rejects Sender == From)
		mt, a := g.senderTokens()
		fs = append(fs, g.field(g.caseName("Sender"), mt, false))
		env.Sender = &AddrList{Addrs: []Addr{a}}
	}

	if g.pct(70, "hasmid") {
		f := g.field(g.caseName("Message-Id"), []string{g.msgID()}, false)
		fs = append(fs, f)
		env.MessageID = sp(f.Value)
	}

	if g.pct(25, "hasirt") {
		n := g.intn(1, 2, "nirt")

		var toks []string
		for i := 0; i < n; i++ {
			toks = append(toks, g.msgID())
		}

		f := g.field(g.caseName("In-Reply-To"), toks, false)
		fs = append(fs, f)
		env.InReplyTo = sp(f.Value)
	}

	if g.pct(20, "hasrefs") {
		n := g.intn(1, 4, "nrefs")

		var toks []string
		for i := 0; i < n; i++ {
			toks = append(toks, g.msgID())
		}

		fs = append(fs, g.field("References", toks, false))
	}

	if g.pct(60, "hasmimever") {
		toks := []string{"1.0"}
		if g.pct(10, "mimevercomment") {
			toks = append(toks, g.comment(0))
		}

		fs = append(fs, g.field(g.caseName("MIME-Version"), toks, false))
	}

	nrecv := 0
	if g.pct(30, "hasreceived") {
		nrecv = g.intn(1, 3, "nreceived")
		g.label("hdr-repeated")
	}

	for i := 0; i < nrecv; i++ {
		toks := []string{"from", doms[g.intn(0, len(doms)-1, "dom")], "by", doms[g.intn(0, len(doms)-1, "dom")], "with", "ESMTP", "id", fmt.Sprintf("%dAB%d;", i, g.intn(0, 999, "rid"))}
		toks = append(toks, g.date()...)
		fs = append(fs, g.field("Received", toks, false))
	}

	return fs, env
}

// senderTokens draws a Sender mailbox whose local part cannot equal any From local part.
func (g *gen) senderTokens() ([]string, Addr) {
	a := Addr{User: "sender-" + locals[g.intn(0, len(locals)-1, "local")], Domain: doms[g.intn(0, len(doms)-1, "dom")]}
	spec := a.User + "@" + a.Domain

	if g.pct(50, "sendername") {
		a.Name = names[g.intn(0, len(names)-1, "name")]
		return []string{a.Name, "<" + spec + ">"}, a
	}

	return []string{spec}, a
}

// extraFields draws X- fields: repeated, differing only in case, empty, 8-bit.
func (g *gen) extraFields() []*Field {
	var fs []*Field

	n := 0
	if g.pct(45, "hasextra") {
		n = g.intn(1, 4, "nextra")
	}

	for i := 0; i < n; i++ {
		name := g.pick("xname", "X-Mailer", "X-Tag", "x-tag", "X-TAG", "X-Spam-Status", "X-Original-To", "Delivered-To", "X-Empty", "List-Id", "X-8bit")

		switch {
		case strings.EqualFold(name, "X-Tag"):
			g.label("hdr-case-variants")
		case name == "X-Empty":
			fs = append(fs, g.field(name, nil, false))
			continue
		}

		fs = append(fs, g.field(name, g.textTokens(1, 5, true), false))
	}

	seen := map[string]bool{}
	for _, f := range fs {
		k := strings.ToLower(f.Name)
		if seen[k] {
			g.label("hdr-repeated")
		}

		seen[k] = true
	}

	return fs
}

// ---- content type ------------------------------------------------------------------------------------------------

func isTokenChar(c byte) bool {
	if c <= 32 || c >= 127 {
		return false
	}

	return !strings.ContainsRune(`()<>@,;:\"/[]?=`, rune(c))
}

func isToken(s string) bool {
	if s == "" {
		return false
	}

	for i := 0; i < len(s); i++ {
		if !isTokenChar(s[i]) {
			return false
		}
	}

	return true
}

func (g *gen) mixCase(s string) string {
	switch g.intn(0, 9, "valcase") {
	case 8:
		g.label("ct-case")
		return strings.ToUpper(s)
	case 9:
		g.label("ct-case")

		b := []byte(s)
		if len(b) > 0 && b[0] >= 'a' && b[0] <= 'z' {
			b[0] -= 32
		}

		return string(b)
	default:
		return s
	}
}

// paramToken renders key=value (value quoted when needed or drawn) and returns it with the expected Param.
func (g *gen) paramToken(key, value string) (string, Param) {
	k := g.mixCase(key)
	v := value

	if !isToken(value) || g.pct(30, "quoteparam") {
		v = quoteString(value)
		g.label("ct-quoted-param")
	}

	return k + "=" + v, Param{Key: strings.ToLower(key), Value: value}
}

// contentType draws the Content-Type field of an entity. boundary != "" for multiparts.
func (g *gen) contentType(n *Node, typ, sub, boundary string) *Field {
	n.HasContentType, n.Type, n.Subtype = true, typ, sub

	type kv struct{ k, v string }

	var ps []kv

	if typ == "text" {
		if g.pct(75, "hascharset") {
			ps = append(ps, kv{"charset", g.pick("charset", "utf-8", "UTF-8", "us-ascii", "iso-8859-1", "windows-1252")})
		}

		if g.pct(15, "hasformat") {
			ps = append(ps, kv{"format", "flowed"})
		}
	} else if n.Kind != Multipart && g.pct(50, "hasname") {
		ps = append(ps, kv{"name", g.pick("fname", "thing.txt", "my file.pdf", "ISO-8859-1.eml", `we"ird\name.bin`, "a;b=c.dat", "report (final).doc", "x")})
	}

	if g.pct(15, "hasxparam") {
		ps = append(ps, kv{g.pick("xparamk", "x-mac-type", "x-unix-mode", "X-Custom", "type", "start"), g.pick("xparamv", "0", "0644", "text/html", "<root@cid>", "a b")})
	}

	if boundary != "" {
		pos := g.intn(0, len(ps), "bpos")
		ps = append(ps[:pos:pos], append([]kv{{"boundary", boundary}}, ps[pos:]...)...)

		if n.Subtype == "report" {
			ps = append(ps, kv{"report-type", "delivery-status"})
		}
	}

	toks := []string{g.mixCase(typ) + "/" + g.mixCase(sub)}
	seen := map[string]bool{}

	for _, p := range ps {
		if seen[strings.ToLower(p.k)] {
			continue
		}

		seen[strings.ToLower(p.k)] = true
		tk, ep := g.paramToken(p.k, p.v)
		toks[len(toks)-1] += ";"
		toks = append(toks, tk)
		n.Params = append(n.Params, ep)
	}

	if g.pct(4, "ctcomment") && g.steer(g.cfg.NoContentTypeComments, "ct-comment") {
		// RFC 2045 5.1: "Content-type: text/plain; charset=us-ascii (Plain text)"
		g.label("ct-comment")

		c := g.pick("ctcommentv", "(Plain text)", "(a (nested) comment)", "(c)")
		if g.pct(50, "ctcommentpos") {
			toks = append(toks, c)
		} else {
			first := strings.TrimSuffix(toks[0], ";")
			semi := toks[0][len(first):]
			toks = append([]string{first, c + semi}, toks[1:]...)
		}
	}

	return g.field(g.caseName("Content-Type"), toks, true)
}

func (g *gen) boundary() string {
	g.bseq++
	seq := g.bseq

	var b string

	switch g.intn(0, 9, "bstyle") {
	case 0, 1:
		b = fmt.Sprintf("b%d", seq)
	case 2:
		b = fmt.Sprintf("----=_Part_%d_%x", seq, g.intn(0, 1<<20, "bhex"))
	case 3:
		b = fmt.Sprintf("------------%02dDCF50B21CF279F489F0184", seq)
	case 4:
		b = fmt.Sprintf("simple boundary %d", seq)
		g.label("boundary-space")
	case 5:
		if len(g.boundaries) > 0 && !g.plainDelims {
			b = g.boundaries[g.intn(0, len(g.boundaries)-1, "bprev")] + fmt.Sprintf("x%d", seq)
			g.label("boundary-prefix-of-inner")
		} else {
			b = fmt.Sprintf("%d", seq)
		}
	case 6:
		b = fmt.Sprintf("=_?(%d)+,./:'", seq)
		g.label("boundary-specials")
	case 7:
		b = fmt.Sprintf("%d", seq) + strings.Repeat("z", 70-len(fmt.Sprintf("%d", seq)))
		g.label("boundary-70")
	case 8:
		b = fmt.Sprintf("--%d", seq) // delimiter lines start with four hyphens
	default:
		b = fmt.Sprintf("%d", seq)
	}

	g.boundaries = append(g.boundaries, b)

	return b
}

// ---- bodies -------------------------------------------------------------------------------------------------------

// textLines draws n lines of text none of which is a delimiter line of the given boundaries. fakes lists
// boundaries for which boundary-LIKE lines may be inserted.
func (g *gen) textLines(n int, avoid, fakes []string) [][]byte {
	var out [][]byte

	add := func(s string) {
		if !IsDelimiterLine([]byte(s), avoid) {
			out = append(out, []byte(s))
		}
	}

	for i := 0; i < n; i++ {
		k := g.intn(0, 29, "linekind")

		switch {
		case k >= 22 && k <= 26 && len(fakes) > 0:
			b := fakes[g.intn(0, len(fakes)-1, "fakeb")]
			if g.plainDelims {
				add("just a line")
				continue
			}

			g.label("fake-boundary")

			switch g.intn(0, 9, "fakekind") {
			case 0:
				add("--" + b + "x")
			case 1:
				add("--" + b[:len(b)-1])
			case 2:
				add(" --" + b)
			case 3:
				add("x--" + b)
			case 4:
				add("-" + b)
			case 5:
				add("---" + b)
			case 6:
				add("--" + b + "--x")
			case 7:
				if up := strings.ToUpper(b); up != b {
					add("--" + up)
				} else {
					add("--" + b + "-")
				}
			case 8:
				add("-- " + b)
			default:
				add("--" + b + "--" + b)
			}
		case k == 27:
			add("")
		case k == 28:
			add(g.pick("oddline", "-- ", "--", "   ", "\t", ".", "From me", ">From x", "=20", "----", strings.Repeat("long", 260)))
		case k == 29:
			add(vocab8[g.intn(0, len(vocab8)-1, "w8i")] + " " + g.word(false))
			g.label("body-8bit")
		default:
			m := g.intn(1, 6, "nwords")
			ws := make([]string, m)

			for j := range ws {
				ws[j] = vocab[g.intn(0, len(vocab)-1, "w")]
			}

			add(strings.Join(ws, " "))
		}
	}

	return out
}

func joinLines(lines [][]byte, finalCRLF bool) []byte {
	var out []byte

	for i, l := range lines {
		out = append(out, l...)

		if i < len(lines)-1 || finalCRLF {
			out = append(out, '\r', '\n')
		}
	}

	return out
}

func (g *gen) leafBody(anc []string) []byte {
	k := g.intn(0, 9, "bodyclass")

	switch {
	case g.cfg.MaxBody > 1536 && g.pct(g.cfg.LargePct, "bodylarge"):
		g.label("body-large")

		mb := g.cfg.MaxBody
		sizes := []int{mb / 8, mb / 3, mb - 1, mb}

		for _, s := range []int{65535, 65536, 65537, 262143, 262144, 262145, 524288} {
			if s <= mb {
				sizes = append(sizes, s)
			}
		}

		return Expand(sizes[g.intn(0, len(sizes)-1, "sizeclass")], rapid.Uint64().Draw(g.t, "bodyseed"), g.intn(0, 2, "compress"))
	case k >= 8:
		g.label("body-medium")
		return Expand(g.intn(100, 1500, "bodysize"), uint64(g.intn(0, 1<<30, "bodyseed32")), g.intn(0, 2, "compress"))
	case k == 7:
		g.label("body-empty")
		return []byte{}
	default:
		lines := g.textLines(g.intn(1, 7, "nlines"), anc, anc)

		final := g.intn(0, 9, "finalnl")
		b := joinLines(lines, final < 6)

		if final == 9 {
			b = append(b, '\r', '\n')
		}

		if final >= 6 && final < 9 {
			g.label("body-no-final-newline")
		}

		return b
	}
}

// ---- entities -----------------------------------------------------------------------------------------------------

var (
	leafTypes = [][2]string{{"text", "plain"}, {"text", "plain"}, {"text", "html"}, {"text", "x-diff"}, {"text", "calendar"},
		{"application", "octet-stream"}, {"application", "pdf"}, {"application", "x-custom+xml"}, {"image", "png"},
		{"audio", "x-wav"}, {"video", "mp4"}, {"message", "delivery-status"}, {"message", "partial"}, {"x-unknown", "thing"}}
	multiSubs = []string{"mixed", "mixed", "alternative", "related", "digest", "parallel", "report", "signed", "x-custom", "0"}
)

func (g *gen) mimeFields(n *Node) []*Field {
	var fs []*Field

	if n.Kind != Multipart {
		if g.pct(45, "hascte") {
			v := "7bit"
			if n.Kind == Message {
				v = g.pick("ctemsg", "7bit", "8bit", "binary", "7BIT")
			} else {
				v = g.pick("cte", "7bit", "8bit", "base64", "quoted-printable", "binary", "BASE64", "Quoted-Printable")
			}

			fs = append(fs, g.field(g.caseName("Content-Transfer-Encoding"), []string{v}, false))
		}

		if g.pct(15, "hascid") {
			fs = append(fs, g.field(g.caseName("Content-ID"), []string{g.msgID()}, false))
		}

		if g.pct(15, "hasdesc") {
			var toks []string
			if !g.pct(10, "emptydesc") {
				toks = g.textTokens(1, 4, true)
			}

			fs = append(fs, g.field(g.caseName("Content-Description"), toks, false))
		}

		if g.pct(8, "hasmd5") {
			fs = append(fs, g.field("Content-MD5", []string{"Q2hlY2sgSW50ZWdyaXR5IQ=="}, false))
		}
	}

	if g.pct(25, "hasdisp") {
		d := g.pick("disp", "attachment", "inline", "Attachment", "INLINE")
		toks := []string{d}

		n.Disposition = strings.ToLower(d)

		if g.pct(60, "dispfn") {
			tk, ep := g.paramToken("filename", g.pick("fname", "thing.txt", "my file.pdf", "test.eml", `q"uote.bin`, "x"))
			toks[0] += ";"
			toks = append(toks, tk)
			n.DispParams = append(n.DispParams, ep)
		}

		fs = append(fs, g.field(g.caseName("Content-Disposition"), toks, true))
	}

	if g.pct(10, "haslang") {
		fs = append(fs, g.field(g.caseName("Content-Language"), []string{g.pick("lang", "en-US", "de", "fr-CA", "en, de")}, false))
	}

	if g.pct(6, "hasloc") {
		fs = append(fs, g.field("Content-Location", []string{g.pick("loc", "file:///C:/images/logo.gif", "http://example.com/a?b=c", "rel/path.png")}, false))
	}

	return fs
}

// entity draws one entity at the given level. anc are the boundaries of all enclosing multiparts.
func (g *gen) entity(level int, isMsg bool, parent *Node, anc []string, inDigest bool) *Node {
	g.nodes++
	n := &Node{IsMessage: isMsg, Parent: parent, Level: level, HeaderTerminated: true}

	// kind
	canNest := level < g.cfg.MaxDepth && g.nodes < g.cfg.MaxNodes

	nestPct := 42
	if level == 1 {
		nestPct = 80
	}

	switch {
	case !canNest || !g.pct(nestPct, "nest"):
		n.Kind = Leaf
	case g.pct(28, "nestmsg"):
		n.Kind = Message
	default:
		n.Kind = Multipart
	}

	if inDigest && canNest && g.pct(50, "digestmsg") {
		n.Kind = Message
	}

	var envFields, mime, extra []*Field

	if isMsg {
		envFields, n.Env = g.messageFields(level == 1)
	}

	switch n.Kind {
	case Multipart:
		g.label("multipart")

		n.Boundary = g.boundary()
		n.Subtype = multiSubs[g.intn(0, len(multiSubs)-1, "msub")]
		mime = append(mime, g.contentType(n, "multipart", n.Subtype, n.Boundary))
	case Message:
		g.label("message-rfc822")

		mime = append(mime, g.contentType(n, "message", "rfc822", ""))
	default:
		if inDigest || !g.pct(15, "noct") {
			tp := leafTypes[g.intn(0, len(leafTypes)-1, "leaftype")]
			mime = append(mime, g.contentType(n, tp[0], tp[1], ""))
		} else {
			n.Type, n.Subtype = "text", "plain"
			g.label("no-content-type")
		}
	}

	mime = append(mime, g.mimeFields(n)...)
	extra = g.extraFields()

	// field order
	switch g.intn(0, 5, "order") {
	case 4:
		n.Fields = append(append(append(n.Fields, mime...), envFields...), extra...)
	case 5:
		all := append(append(append([]*Field{}, envFields...), mime...), extra...)
		if len(all) > 1 {
			idx := make([]int, len(all))
			for i := range idx {
				idx[i] = i
			}

			for _, i := range rapid.Permutation(idx).Draw(g.t, "perm") {
				n.Fields = append(n.Fields, all[i])
			}

			g.label("hdr-permuted")
		} else {
			n.Fields = all
		}
	default:
		n.Fields = append(append(append(n.Fields, envFields...), mime...), extra...)
	}

	// body
	switch n.Kind {
	case Leaf:
		n.leafBody = g.leafBody(anc)

		if len(n.leafBody) == 0 && g.pct(25, "noblank") {
			n.HeaderTerminated = false
			g.label("header-unterminated")
		}
	case Message:
		n.Embedded = g.entity(level+1, true, n, anc, false)
	case Multipart:
		inner := append(append([]string{}, anc...), n.Boundary)

		if g.plainDelims && parent != nil && parent.Kind == Multipart && !isMsg && g.pct(40, "noclose") {
			n.NoClose = true
			g.label("nested-multipart-unclosed")
		}

		if g.pct(30, "preamble") {
			g.label("preamble")

			n.Preamble = joinLines(g.textLines(g.intn(0, 3, "npre"), inner, inner), false)
			if n.Preamble == nil {
				n.Preamble = []byte{}
			}
		}

		nc := g.intn(1, g.cfg.MaxParts, "nchildren")
		for i := 0; i < nc; i++ {
			n.Children = append(n.Children, g.entity(level+1, false, n, inner, n.Subtype == "digest"))
		}

		n.DelimPad = make([]string, nc+1)

		if g.pct(5, "delimpad") && g.steer(g.cfg.NoDelimiterPadding, "delim-padding") {
			// RFC 2046 5.1.1: receivers must cope with transport padding behind delimiter lines
			g.label("delim-padding")

			for i := range n.DelimPad {
				n.DelimPad[i] = g.pick("delimpadv", " ", "", "\t", "  ")
			}
		}

		if n.NoClose {
			// nothing behind the last part
		} else if g.pct(55, "epilogue") {
			n.Epilogue = []byte{}

			if g.pct(50, "epiloguetext") {
				g.label("epilogue")

				// the epilogue may even contain this multipart's own delimiter: everything after the close
				// delimiter is ignored (it must still not contain a delimiter of an enclosing multipart)
				n.Epilogue = joinLines(g.textLines(g.intn(1, 3, "nepi"), anc, inner), g.pct(70, "epinl"))
			}
		}
	}

	return n
}
