package mime

import (
	"bytes"
	"strings"

	"pgregory.net/rapid"
)

// Mutate applies one drawn structure-aware mutation to a well-formed tree and returns the mutated bytes together
// with the label of the mutation. The tree itself is not modified. The result is in general NOT well-formed; the
// tree's expectations no longer apply to it.
func Mutate(t *rapid.T, tree *Tree) ([]byte, string) {
	src := tree.Bytes
	intn := func(lo, hi int, label string) int {
		if hi <= lo {
			return lo
		}

		return rapid.IntRange(lo, hi).Draw(t, label)
	}

	var multis []*Node

	for _, n := range tree.Nodes {
		if n.Kind == Multipart {
			multis = append(multis, n)
		}
	}

	cut := func(b []byte, from, to int) []byte {
		out := make([]byte, 0, len(b)-(to-from))
		out = append(out, b[:from]...)

		return append(out, b[to:]...)
	}

	insert := func(b []byte, at int, ins []byte) []byte {
		out := make([]byte, 0, len(b)+len(ins))
		out = append(out, b[:at]...)
		out = append(out, ins...)

		return append(out, b[at:]...)
	}

	kind := intn(0, 15, "mutation")

	if len(multis) == 0 && (kind <= 3 || kind == 9 || kind == 10) {
		kind = 4 + kind%3
	}

	switch kind {
	case 0: // delete a closing boundary
		m := multis[intn(0, len(multis)-1, "multi")]
		d := m.Delims[len(m.Delims)-1]

		return cut(src, d[0], d[1]), "mut-del-close-delim"
	case 1: // delete any delimiter line
		m := multis[intn(0, len(multis)-1, "multi")]
		d := m.Delims[intn(0, len(m.Delims)-1, "delim")]

		return cut(src, d[0], d[1]), "mut-del-delim"
	case 2: // duplicate a part (with the delimiter in front of it)
		m := multis[intn(0, len(multis)-1, "multi")]
		i := intn(0, len(m.Delims)-2, "part")
		seg := src[m.Delims[i][0]:m.Delims[i+1][0]]

		if i == 0 && m.Preamble == nil {
			seg = append([]byte("\r\n"), seg...)
			return insert(src, m.Delims[i+1][0], seg), "mut-dup-part"
		}

		return insert(src, m.Delims[i+1][0], seg), "mut-dup-part"
	case 3: // transport padding / garbage after a delimiter
		m := multis[intn(0, len(multis)-1, "multi")]
		d := m.Delims[intn(0, len(m.Delims)-1, "delim")]
		pad := []string{" ", "\t", "   ", " x", "--", "\r", "-"}[intn(0, 6, "pad")]
		end := d[1]

		if bytes.HasSuffix(src[d[0]:d[1]], []byte("\r\n")) {
			end -= 2
		}

		return insert(src, end, []byte(pad)), "mut-delim-padding"
	case 4: // cut anywhere
		return append([]byte{}, src[:intn(0, len(src), "cutat")]...), "mut-cut"
	case 5: // cut at a structural point +-2
		n := tree.Nodes[intn(0, len(tree.Nodes)-1, "node")]
		at := []int{n.Start, n.BodyStart, n.End}[intn(0, 2, "edge")] + intn(-2, 2, "delta")

		if at < 0 {
			at = 0
		}

		if at > len(src) {
			at = len(src)
		}

		return append([]byte{}, src[:at]...), "mut-cut-edge"
	case 6: // splice header bytes into a body
		from := tree.Nodes[intn(0, len(tree.Nodes)-1, "hdrfrom")]
		into := tree.Nodes[intn(0, len(tree.Nodes)-1, "bodyinto")]
		at := into.BodyStart + intn(0, into.End-into.BodyStart, "bodyat")

		return insert(src, at, from.Header), "mut-splice-header"
	case 7: // uniform line-ending change
		switch intn(0, 3, "eol") {
		case 0:
			return bytes.ReplaceAll(src, []byte("\r\n"), []byte("\n")), "mut-eol-lf"
		case 1:
			return bytes.ReplaceAll(src, []byte("\r\n"), []byte("\r")), "mut-eol-cr"
		case 2:
			return bytes.ReplaceAll(src, []byte("\r\n"), []byte("\r\r\n")), "mut-eol-crcrlf"
		default:
			return bytes.ReplaceAll(src, []byte("\r\n"), []byte("\n\r")), "mut-eol-lfcr"
		}
	case 8: // per-line mix of line endings from a seed
		x := newXorshift(rapid.Uint64().Draw(t, "eolseed"))
		density := intn(1, 8, "eoldensity")
		eols := []string{"\n", "\r", "\r\r\n", "\n\r", "", "\r\n\r\n", "\n\n"}

		var out bytes.Buffer

		for rest := src; len(rest) > 0; {
			i := bytes.Index(rest, []byte("\r\n"))
			if i < 0 {
				out.Write(rest)
				break
			}

			out.Write(rest[:i])

			if v := x.next(); int(v%8) < density {
				out.WriteString(eols[(v>>8)%uint64(len(eols))])
			} else {
				out.WriteString("\r\n")
			}

			rest = rest[i+2:]
		}

		return out.Bytes(), "mut-eol-mix"
	case 9: // boundary parameter damaged: emptied, or header and delimiters disagree
		m := multis[intn(0, len(multis)-1, "multi")]
		hdr := src[m.Start:m.BodyStart]
		i := bytes.Index(hdr, []byte(m.Boundary))

		if i < 0 {
			return append([]byte{}, src[:len(src)/2]...), "mut-cut"
		}

		switch intn(0, 2, "bdamage") {
		case 0:
			return cut(src, m.Start+i, m.Start+i+len(m.Boundary)), "mut-boundary-empty-param"
		case 1:
			return insert(src, m.Start+i, []byte("Z")), "mut-boundary-mismatch"
		default:
			// empty boundary everywhere: the delimiters become "--" and "----"
			out := append([]byte{}, src[:m.Start]...)
			out = append(out, bytes.ReplaceAll(src[m.Start:m.End], []byte(m.Boundary), nil)...)

			return append(out, src[m.End:]...), "mut-boundary-empty"
		}
	case 10: // a child's boundary renamed to its parent's (ambiguous nesting)
		for _, m := range multis {
			for p := m.Parent; p != nil; p = p.Parent {
				if p.Kind == Multipart {
					out := append([]byte{}, src[:m.Start]...)
					out = append(out, bytes.ReplaceAll(src[m.Start:m.End], []byte(m.Boundary), []byte(p.Boundary))...)

					return append(out, src[m.End:]...), "mut-boundary-same-as-parent"
				}
			}
		}

		return bytes.ReplaceAll(src, []byte("\r\n"), []byte("\n")), "mut-eol-lf"
	case 11, 12: // overwrite a few bytes with hostile values
		out := append([]byte{}, src...)
		hostile := []byte{0, 0xff, '(', ')', '"', '\\', '\r', '\n', ':', ';', '=', '-', ' ', '\t', '<', '>', '@', ',', 0x80, '{', '}', '*', '%'}

		for i, n := 0, intn(1, 6, "nflips"); i < n && len(out) > 0; i++ {
			out[intn(0, len(out)-1, "flipat")] = hostile[intn(0, len(hostile)-1, "flipval")]
		}

		return out, "mut-bytes"
	case 13: // garbage line inside a header
		n := tree.Nodes[intn(0, len(tree.Nodes)-1, "node")]
		at := n.Start

		if len(n.Fields) > 0 {
			for _, f := range n.Fields[:intn(0, len(n.Fields), "fieldidx")] {
				at += len(f.Raw)
			}
		}

		junk := []string{"no colon here\r\n", "Bad Name: x\r\n", "X\xe9: 8bit name\r\n", ": empty name\r\n", "X::\r\n", " \r\n", "\t\r\n",
			"From MAILER-DAEMON Fri Jul  8 12:08:34 2011\r\n", "X-A:\r", "Content-Type: multipart/mixed\r\n", "Content-Type: text/plain; charset=a; charset=b\r\n",
			"Content-Type: message/rfc822\r\n", "Content-Type: (c) text/plain\r\n", "Content-Disposition: ;\r\n", "X-B: \r\n\r\n"}[intn(0, 14, "junk")]

		return insert(src, at, []byte(junk)), "mut-header-junk"
	case 14: // address header damaged: unbalanced comment / quote / angle
		for _, n := range tree.Nodes {
			for _, name := range []string{"To", "From", "Cc"} {
				if f := n.Get(name); f != nil && n.IsMessage {
					junk := []string{"(", "((", "\"", "<", "\\", ")", ":", ";;", "@", ",,,", "=?utf-8?q?", "=?x?b?!!!?=", "[", "\x00", "(\\"}[intn(0, 14, "addrjunk")]
					off := n.Start

					for _, g := range n.Fields {
						if g == f {
							break
						}

						off += len(g.Raw)
					}

					at := off + len(f.Name) + 1 + intn(0, len(f.Raw)-len(f.Name)-3, "addrat")

					return insert(src, at, []byte(junk)), "mut-address-junk"
				}
			}
		}

		return append([]byte{}, src[:len(src)/2]...), "mut-cut"
	default: // whole message repeated / concatenated with itself after a cut
		at := intn(0, len(src), "concatat")
		return append(append([]byte{}, src[:at]...), src...), "mut-concat"
	}
}

// ---- deep nesting ---------------------------------------------------------------------------------------------------

const deepHead = "From: a@b.c\r\nDate: Mon, 7 Feb 1994 21:52:25 -0800\r\n"

// DeepMultipart nests `depth` multiparts. sameBoundary uses one boundary for all levels, closed writes the close
// delimiters, lf uses bare LF line endings.
func DeepMultipart(depth int, sameBoundary, closed, lf bool) []byte {
	var sb bytes.Buffer

	sb.Grow(depth*64 + 256)
	sb.WriteString(deepHead)

	bnd := func(i int) string {
		if sameBoundary {
			return "b"
		}

		return "b" + itoa(i)
	}

	for i := 0; i < depth; i++ {
		sb.WriteString("Content-Type: multipart/mixed; boundary=" + bnd(i) + "\r\n\r\n--" + bnd(i) + "\r\n")
	}

	sb.WriteString("Content-Type: text/plain\r\n\r\ninnermost\r\n")

	if closed {
		for i := depth - 1; i >= 0; i-- {
			sb.WriteString("\r\n--" + bnd(i) + "--")
		}

		sb.WriteString("\r\n")
	}

	if lf {
		return bytes.ReplaceAll(sb.Bytes(), []byte("\r\n"), []byte("\n"))
	}

	return sb.Bytes()
}

// DeepMessage nests `depth` message/rfc822 entities around a text leaf.
func DeepMessage(depth int, lf bool) []byte {
	var sb bytes.Buffer

	sb.Grow(depth*32 + 256)
	sb.WriteString(deepHead)

	eol := "\r\n"
	if lf {
		eol = "\n"
	}

	unit := "Content-Type:message/rfc822" + eol + eol
	for i := 0; i < depth; i++ {
		sb.WriteString(unit)
	}

	sb.WriteString("Subject: innermost" + eol + eol + "text" + eol)

	if lf {
		return bytes.ReplaceAll(sb.Bytes(), []byte("\r\n"), []byte("\n"))
	}

	return sb.Bytes()
}

// DeepMixed alternates multipart and message/rfc822 levels.
func DeepMixed(depth int) []byte {
	var sb bytes.Buffer

	sb.WriteString(deepHead)

	for i := 0; i < depth; i++ {
		if i%2 == 0 {
			sb.WriteString("Content-Type: multipart/mixed; boundary=b" + itoa(i) + "\r\n\r\n--b" + itoa(i) + "\r\n")
		} else {
			sb.WriteString("Content-Type: message/rfc822\r\n\r\n")
		}
	}

	sb.WriteString("Content-Type: text/plain\r\n\r\ninnermost\r\n")

	for i := depth - 1; i >= 0; i-- {
		if i%2 == 0 {
			sb.WriteString("\r\n--b" + itoa(i) + "--")
		}
	}

	return sb.Bytes()
}

// DeepComment builds a message whose address header `field` carries a comment nested `depth` deep. closed adds the
// closing parentheses; style selects where the comment sits (0: before an addr-spec, 1: after a display name,
// 2: inside an angle-addr, 3: alone).
func DeepComment(depth int, closed bool, field string, style int) []byte {
	var sb bytes.Buffer

	sb.Grow(2*depth + 256)
	sb.WriteString("Date: Mon, 7 Feb 1994 21:52:25 -0800\r\n")

	if !strings.EqualFold(field, "From") {
		sb.WriteString("From: a@b.c\r\n")
	}

	sb.WriteString(field + ": ")
	sb.WriteString(DeepCommentValue(depth, closed, style))
	sb.WriteString("\r\n\r\nbody\r\n")

	return sb.Bytes()
}

// DeepCommentValue is the header value used by DeepComment.
func DeepCommentValue(depth int, closed bool, style int) string {
	var sb strings.Builder

	sb.Grow(2*depth + 32)

	c := strings.Repeat("(", depth)
	if closed {
		c += strings.Repeat(")", depth)
	}

	switch style {
	case 1:
		sb.WriteString("Name " + c + " <u@d.e>")
	case 2:
		sb.WriteString("<" + c + "u@d.e>")
	case 3:
		sb.WriteString(c)
	default:
		sb.WriteString(c + " u@d.e")
	}

	return sb.String()
}

func itoa(i int) string {
	if i == 0 {
		return "0"
	}

	var b [20]byte

	p := len(b)
	for ; i > 0; i /= 10 {
		p--
		b[p] = byte('0' + i%10)
	}

	return string(b[p:])
}
