// Package kf reads /verif/known_findings.json (committed, never written at run time).
//
// A *known* entry identifies one genuine defect of gluon that is recorded rather than repaired. Generators ask
// Listed(id) to steer away from the region of a known finding (counting ev.Excluded), and each finding has a
// deterministic regression test which calls Report(id) while the defect still reproduces. A violation that matches no
// listed entry is reported normally. *Fixed* entries suppress nothing.
package kf

import (
	"encoding/json"
	"os"
	"path/filepath"
	"sync"

	"verif/internal/ev"
)

type Finding struct {
	ID       string `json:"id"`
	Property string `json:"property"`
	What     string `json:"what"`     // text of the KNOWN-FINDING line
	Fails    string `json:"fails"`    // the specific input / call site / history that fails
	Excluded string `json:"excluded"` // how generators steer away from it
}

type file struct {
	Known []Finding `json:"known"`
	Fixed []string  `json:"fixed"`
}

var (
	once sync.Once
	data file
)

func load() {
	root := os.Getenv("VERIF_ROOT")
	if root == "" {
		root = "/verif"
	}

	path := filepath.Join(root, "known_findings.json")

	// VERIF_KF_FILE: development only - try out proposed entries without touching the committed file.
	if alt := os.Getenv("VERIF_KF_FILE"); alt != "" {
		path = alt
	}

	b, err := os.ReadFile(path)
	if err != nil {
		return
	}

	_ = json.Unmarshal(b, &data)
}

// Listed tells whether a finding with this id is listed as known (not fixed).
func Listed(id string) bool {
	once.Do(load)

	for _, f := range data.Known {
		if f.ID == id {
			return true
		}
	}

	return false
}

// Report prints the KNOWN-FINDING line of a listed finding (call it only when the defect was reproduced just now).
// It returns false if the id is not listed: the caller must then treat the failure as a violation.
func Report(id string) bool {
	once.Do(load)

	for _, f := range data.Known {
		if f.ID == id {
			ev.Known(f.Property, f.ID+": "+f.What)
			return true
		}
	}

	return false
}
