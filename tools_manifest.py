#!/usr/bin/env python3
# regenerates MANIFEST.json from manifest_src.json (claimed checks) + properties.jsonl
import json,subprocess
props=[json.loads(l) for l in open('/verif/properties.jsonl')]
src=json.load(open('/verif/manifest_src.json'))
claimed=src['claimed']
commits=subprocess.run("git -C /repo log --format=%H --grep='^verif hooks'",shell=True,capture_output=True,text=True).stdout.split()
m={"version":1,"setup_cmd":"./check --setup",
 "hooks":{"guard":"verif","enable":"go test -tags verif (the driver ./check passes the tag to every build of /repo)","baseline_off_cmd":json.load(open('/root/.vp/BASELINE.json'))["cmd"],"source_commits":commits[::-1],"add_only":True},
 "engines":[{"name":"check","path":"check","serves_properties":sorted(claimed),"kind_free_text":"python driver: builds props/cXX against /repo's working tree with -tags verif, runs rapid (pgregory.net/rapid v1.3.0) property tests and native go fuzz targets in shards, merges evidence parts into evidence/<id>.json"}],
 "checks":[],"not_applicable":[],"notes":src.get("notes","")}
for p in props:
    pid=p['id']
    if pid in claimed:
        c=claimed[pid]
        m["checks"].append({"property_id":pid,"quick_cmd":"./check %s --tier quick"%pid,"thorough_cmd":"./check %s --tier thorough"%pid,
          "evidence_file":"/verif/evidence/%s.json"%pid,"replay_cmd_template":"./check %s --replay {path}"%pid,"engine":"check",
          "level_claimed":{"category":c.get("level","exploration"),"text":c["text"],"design_ref":"DESIGN.md section 3, %s"%pid},
          "level_note":c["note"],"technique":c["technique"]})
    else:
        m["not_applicable"].append({"property_id":pid,"reason":src["na"].get(pid,"check not built yet (work in progress, see DESIGN.md section 3)")})
json.dump(m,open('/verif/MANIFEST.json','w'),indent=1)
print(len(m["checks"]),"claimed")
